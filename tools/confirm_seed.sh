#!/bin/bash
# confirm_seed.sh <worktree> <seed-dir> <dest-name>
# Confirms a sub-agent's seeded change independently:
#   demo passes on the clean worktree, patch applies, baseline suite still
#   passes with it, demo fails with it; then stores it under
#   /verif/seeded/<dest-name>/ and leaves the worktree clean.
set -u
WT="$1"; SEED="$2"; DEST="/verif/seeded/$3"
TMPP=$(mktemp -u /tmp/confirm.XXXXXX)
trap 'rm -f $TMPP.*' EXIT
cd "$WT" || exit 2
git checkout -q -- yamlpath
git status --short -- yamlpath | grep -q . && { echo "worktree not clean"; exit 2; }
timeout 120 /venv/bin/python "$SEED/demo.py" < /dev/null > $TMPP.clean.out 2>&1; RC_CLEAN=$?
git apply --check "$SEED/patch.diff" || { echo "PATCH DOES NOT APPLY"; exit 1; }
git apply "$SEED/patch.diff"
/verif/tools/baseline_check.py "$WT" > $TMPP.base.out 2>&1; RC_BASE=$?
timeout 120 /venv/bin/python "$SEED/demo.py" < /dev/null > $TMPP.mut.out 2>&1; RC_MUT=$?
git checkout -q -- yamlpath
echo "demo(clean)=$RC_CLEAN baseline(with patch)=$RC_BASE [$(head -1 $TMPP.base.out)] demo(with patch)=$RC_MUT"
if [ $RC_CLEAN -eq 0 ] && [ $RC_BASE -eq 0 ] && [ $RC_MUT -ne 0 ]; then
  mkdir -p "$DEST"
  cp "$SEED/patch.diff" "$SEED/demo.py" "$DEST/"
  /venv/bin/python - "$SEED/meta.json" "$DEST/meta.json" "$RC_CLEAN" "$RC_MUT" "$(head -1 $TMPP.base.out)" "$(tail -3 $TMPP.mut.out | tr '\n' ' ')" <<'EOF'
import json, sys
src, dst, rc_clean, rc_mut, base, mutout = sys.argv[1:7]
try:
    meta = json.load(open(src))
except Exception:
    meta = {}
meta["confirmed_by_main"] = {
    "demo_exit_on_clean_tree": int(rc_clean),
    "demo_exit_with_patch": int(rc_mut),
    "baseline_with_patch": base,
    "demo_output_with_patch_tail": mutout[:500],
    "commands": ["git apply patch.diff", "/verif/tools/baseline_check.py <worktree>",
                 "/venv/bin/python demo.py (clean and patched)"],
}
json.dump(meta, open(dst, "w"), indent=1)
EOF
  echo "CONFIRMED -> $DEST"
else
  echo "NOT CONFIRMED"; tail -5 $TMPP.mut.out; exit 1
fi
