"""pytest plugin standing in for pytest-console-scripts' `script_runner`
fixture (absent from this sandbox), so that the upstream CLI tests - which the
pinned baseline cannot run - can be used to vet "fix:" commits.

    cd <tree> && PATH=/venv/bin:$PATH PYTHONPATH=<tree>:/verif/tools \
        /venv/bin/python -m pytest -q -p script_runner_shim \
        -p no:cacheprovider tests/test_commands_*.py

Every console script is run as a real subprocess of /venv/bin/<name>; the
tree under test is whatever comes first on PYTHONPATH.
"""
import subprocess

import pytest


class _Result:
    def __init__(self, proc):
        self.returncode = proc.returncode
        self.stdout = proc.stdout
        self.stderr = proc.stderr
        self.success = proc.returncode == 0


class _Runner:
    def run(self, command, *more, **kwargs):
        if isinstance(command, str):
            command = [command] + list(more)
        kw = {"capture_output": True, "text": True, "timeout": 180}
        if "stdin" in kwargs and kwargs["stdin"] is not None:
            stdin = kwargs["stdin"]
            kw["input"] = stdin.read() if hasattr(stdin, "read") else stdin
        else:
            kw["stdin"] = subprocess.DEVNULL
        for key in ("cwd", "env"):
            if kwargs.get(key) is not None:
                kw[key] = kwargs[key]
        return _Result(subprocess.run([str(c) for c in command], **kw))


@pytest.fixture
def script_runner():
    return _Runner()
