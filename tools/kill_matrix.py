#!/venv/bin/python
"""Render seeded/RESULTS.json (+ each seed's meta.json) as the markdown table
of DESIGN.md section 12 and splice it between the KILL-MATRIX markers.

    tools/kill_matrix.py            # rewrite DESIGN.md in place
    tools/kill_matrix.py --print    # table on stdout only
"""
import json
import os
import re
import sys

ROOT = os.path.dirname(os.path.dirname(os.path.abspath(__file__)))


def first_clause(sig):
    try:
        d = json.loads(sig)
    except Exception:
        return sig[:60]
    for k in ("clause", "exc"):
        if k in d:
            extra = d.get("exc") if k == "clause" and "exc" in d else None
            return d[k] + (" (%s)" % extra if extra else "")
    return sig[:60]


def short(text, n=150):
    text = " ".join(str(text).split())
    return text if len(text) <= n else text[:n - 1].rstrip() + "…"


def main():
    res = json.load(open(os.path.join(ROOT, "seeded", "RESULTS.json")))
    rows = []
    caught = missed = obsolete = 0
    for name in sorted(res):
        meta = {}
        mp = os.path.join(ROOT, "seeded", name, "meta.json")
        if os.path.exists(mp):
            meta = json.load(open(mp))
        verdicts = []
        hit = False
        for cid in sorted(k for k in res[name] if not k.startswith("_")):
            r = res[name][cid]
            if r["exit"] == 1:
                hit = True
                verdicts.append("**%s** %s" % (
                    cid, first_clause(r["sigs"][0]) if r["sigs"] else ""))
            elif r["exit"] == 0:
                verdicts.append("%s quiet" % cid)
            else:
                verdicts.append("%s harness-error" % cid)
        if meta.get("obsolete") and not hit:
            verdicts.append("*obsolete: %s*" % short(meta["obsolete"], 120))
            obsolete += 1
        else:
            caught += hit
            missed += not hit
        rows.append("| %s | %s | %s | %s |" % (
            name, short(meta.get("summary", ""), 170).replace("|", "/"),
            short(meta.get("needs", ""), 170).replace("|", "/"),
            "; ".join(verdicts).replace("|", "/")))
    table = ["| seed | change (sub-agent's own summary) | needs | checks "
             "(bold = exit 1 with a VIOLATION line) |",
             "|---|---|---|---|"] + rows
    table.append("")
    table.append("%d seeded changes: %d caught by at least one registered "
                 "check, %d missed, %d obsolete (made harmless by a later fix: "
                 "commit; their own demonstrations pass on the current tree)."
                 % (caught + missed + obsolete, caught, missed, obsolete))
    text = "\n".join(table)
    if "--print" in sys.argv:
        print(text)
        return
    path = os.path.join(ROOT, "DESIGN.md")
    doc = open(path).read()
    begin, end = "<!-- KILL-MATRIX:BEGIN -->", "<!-- KILL-MATRIX:END -->"
    if begin not in doc:
        raise SystemExit("markers missing in DESIGN.md")
    doc = re.sub(re.escape(begin) + r".*?" + re.escape(end),
                 lambda m: begin + "\n" + text + "\n" + end, doc, flags=re.S)
    open(path, "w").write(doc)
    print("%d caught, %d missed" % (caught, missed))


if __name__ == "__main__":
    main()
