#!/bin/bash
# cli_tests.sh [tree] [outfile]  - run the upstream CLI tests (tests/test_commands_*.py)
# of a yamlpath tree through tools/script_runner_shim.py; prints the summary line
# and writes the list of failing test ids to outfile (default /dev/null).
TREE="${1:-/repo}"; OUT="${2:-/dev/null}"
cd "$TREE" || exit 2
PATH=/venv/bin:$PATH PYTHONPATH="$TREE:/verif/tools" PYTHONDONTWRITEBYTECODE=1 \
  timeout 3000 /venv/bin/python -m pytest -q -x --co -q -p script_runner_shim -p no:cacheprovider tests/test_commands_yaml_get.py > /dev/null 2>&1 || { echo "collection failed"; exit 2; }
PATH=/venv/bin:$PATH PYTHONPATH="$TREE:/verif/tools" PYTHONDONTWRITEBYTECODE=1 \
  timeout 3000 /venv/bin/python -m pytest -q -rf -p script_runner_shim -p no:cacheprovider \
  tests/test_commands_*.py < /dev/null > /tmp/cli_tests.$$.out 2>&1
grep "^FAILED" /tmp/cli_tests.$$.out | sed 's/ - .*//' | sort > "$OUT"
tail -1 /tmp/cli_tests.$$.out
rm -f /tmp/cli_tests.$$.out
