#!/venv/bin/python
"""Run registered checks against seeded breaking changes.

    tools/run_seeded.py [--tier quick] [--checks C01,C15] [seed-name ...]

For each /verif/seeded/<name>/patch.diff: copy /repo's yamlpath package to a
scratch directory, apply the patch there, run `VP_REPO=<scratch> ./check <id>`
for the property the seed targets (or the ids given), record exit status and
the VIOLATION signatures, and remove the scratch directory.  /repo itself is
never modified.  Results go to seeded/RESULTS.json (kill matrix).
"""
import argparse
import json
import os
import re
import shutil
import subprocess
import sys
import tempfile
import time

ROOT = os.path.dirname(os.path.dirname(os.path.abspath(__file__)))


def main():
    ap = argparse.ArgumentParser()
    ap.add_argument("--tier", default="quick")
    ap.add_argument("--checks")
    ap.add_argument("--dir", default="seeded")
    ap.add_argument("names", nargs="*")
    args = ap.parse_args()
    sdir = os.path.join(ROOT, args.dir)
    names = args.names or sorted(
        n for n in os.listdir(sdir)
        if os.path.exists(os.path.join(sdir, n, "patch.diff")))
    results_path = os.path.join(sdir, "RESULTS.json")
    results = {}
    if os.path.exists(results_path):
        results = json.load(open(results_path))
    for name in names:
        patch = os.path.join(sdir, name, "patch.diff")
        prop = re.match(r"(C\d+)", name).group(1)
        checks = args.checks.split(",") if args.checks else [prop]
        scratch = tempfile.mkdtemp(prefix="vp-seed-")
        try:
            shutil.copytree("/repo/yamlpath", os.path.join(scratch,
                                                           "yamlpath"))
            r = subprocess.run(["git", "apply", "--whitespace=nowarn", patch],
                               cwd=scratch, capture_output=True, text=True)
            if r.returncode != 0:
                r = subprocess.run(["patch", "-p1", "-i", patch, "--fuzz=3"],
                                   cwd=scratch, capture_output=True, text=True)
            if r.returncode != 0:
                print("%s: PATCH DOES NOT APPLY: %s" % (name, r.stderr[:300]))
                results.setdefault(name, {})["_apply"] = "failed"
                continue
            for cid in checks:
                env = dict(os.environ, VP_REPO=scratch)
                env.pop("VP_CHILD", None)
                t0 = time.time()
                r = subprocess.run([os.path.join(ROOT, "check"), cid,
                                    "--tier", args.tier, "--no-evidence"],
                                   cwd=ROOT, env=env, capture_output=True,
                                   text=True, stdin=subprocess.DEVNULL)
                sigs = re.findall(r"^  sig=(.*)$", r.stdout, re.M)
                nviol = len(re.findall(r"^VIOLATION ", r.stdout, re.M))
                results.setdefault(name, {})[cid] = {
                    "exit": r.returncode, "violations": nviol,
                    "sigs": sigs[:5], "wall_s": round(time.time() - t0, 1),
                    "tier": args.tier}
                verdict = {0: "MISSED", 1: "CAUGHT"}.get(r.returncode,
                                                         "HARNESS-ERROR")
                print("%-8s %-4s %-13s violations=%d %5.1fs %s" % (
                    name, cid, verdict, nviol, time.time() - t0,
                    sigs[0][:150] if sigs else ""))
                if r.returncode == 2:
                    print(r.stdout[-800:], r.stderr[-800:])
                sys.stdout.flush()
        finally:
            shutil.rmtree(scratch, ignore_errors=True)
            shutil.rmtree(os.path.join(ROOT, "replays", "found"),
                          ignore_errors=True)
    # merge into whatever is on disk now (another run may have finished)
    merged = {}
    if os.path.exists(results_path):
        merged = json.load(open(results_path))
    for name in names:
        if name in results:
            merged.setdefault(name, {}).update(results[name])
    json.dump(merged, open(results_path, "w"), indent=1, sort_keys=True)


if __name__ == "__main__":
    main()
