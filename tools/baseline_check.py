#!/venv/bin/python
"""Run the pinned test suite in DIR (default /repo) and compare with
BASELINE.json's stable_pass list.  Exit 0 iff every stable test still passes."""
import json, os, subprocess, sys, tempfile, xml.etree.ElementTree as ET
d = sys.argv[1] if len(sys.argv) > 1 else "/repo"
base = json.load(open("/root/.vp/BASELINE.json"))
fd, junit = tempfile.mkstemp(suffix=".xml"); os.close(fd)
env = dict(os.environ); env.pop("PYTHONPATH", None)
for k in list(env):
    if k.startswith("VP_") or k.startswith("VERIF_"):
        env.pop(k)
subprocess.run(["/venv/bin/python", "-m", "pytest", "-q", "-p", "no:cacheprovider",
                "--timeout=900", "--continue-on-collection-errors", "--junitxml=" + junit],
               cwd=d, stdout=subprocess.DEVNULL, stderr=subprocess.DEVNULL, stdin=subprocess.DEVNULL, env=env)
passed, failed = set(), set()
for tc in ET.parse(junit).getroot().iter("testcase"):
    tid = (tc.get("classname") or "") + "::" + (tc.get("name") or "")
    if tc.find("failure") is not None or tc.find("error") is not None: failed.add(tid)
    elif tc.find("skipped") is None: passed.add(tid)
os.remove(junit)
missing = sorted(set(base["stable_pass"]) - passed)
print("passed=%d failed=%d baseline=%d missing_from_pass=%d" % (len(passed), len(failed), len(base["stable_pass"]), len(missing)))
for m in missing[:20]: print("  NOT PASSING:", m)
sys.exit(1 if missing else 0)
