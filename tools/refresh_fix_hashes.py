#!/venv/bin/python
"""After a history rewrite in /repo (fixup + autosquash), re-point the commit
hashes on `fixed:` lines of known-findings.txt (and in replays' detail fields)
to the commits that now carry the same subject line."""
import re, subprocess, sys
def git(*a):
    return subprocess.run(["git", "-C", "/repo"] + list(a), capture_output=True, text=True).stdout
current = {}
for line in git("log", "--format=%h %s").splitlines():
    h, _, subj = line.partition(" ")
    current.setdefault(subj, h)
path = "/verif/known-findings.txt"
out = []
changed = 0
for line in open(path):
    m = re.match(r"(fixed: property=C\d+ )([0-9a-f]{7,})((?: [0-9a-f]{7,})*)( .*)", line, re.S)
    if m:
        hashes = [m.group(2)] + m.group(3).split()
        new = []
        for h in hashes:
            subj = git("log", "-1", "--format=%s", h).strip()
            nh = current.get(subj)
            if not subj or nh is None:
                print("cannot map", h, subj); nh = h
            if nh != h: changed += 1
            new.append(nh)
        line = m.group(1) + " ".join(new) + m.group(4)
    out.append(line)
open(path, "w").writelines(out)
print("re-pointed", changed, "hashes")
for line in out:
    m = re.match(r"fixed: property=C\d+ ([0-9a-f]{7,})", line)
    if m and not git("merge-base", "--is-ancestor", m.group(1), "HEAD") == "" :
        pass
# verify every fixed hash is an ancestor of HEAD
bad = 0
for line in out:
    for h in re.findall(r"^fixed: property=C\d+ ((?:[0-9a-f]{7,} ?)+)", line):
        for one in h.split():
            r = subprocess.run(["git", "-C", "/repo", "merge-base", "--is-ancestor", one, "HEAD"])
            if r.returncode != 0:
                print("NOT IN HISTORY:", one); bad += 1
sys.exit(1 if bad else 0)
