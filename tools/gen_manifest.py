#!/venv/bin/python
"""Regenerate MANIFEST.json from the table below and validate it against
/root/.vp/MANIFEST.schema.json (when jsonschema is importable)."""
import json
import os
import sys

ROOT = os.path.dirname(os.path.dirname(os.path.abspath(__file__)))

TRUST = ("Trusted base: CPython 3.12, ruamel.yaml 0.17.21 loader/dumper, "
         "Hypothesis 6.168, and the reference models under vp/model "
         "(independent of yamlpath's processor/merger/differ). ")

# id -> (built?, category, technique, text, level_note, design_ref)
CHECKS = {
    "C01": (True, "exploration",
            "exhaustive small-scope enumeration + Hypothesis generation, "
            "differential against an independent three-valued reference "
            "evaluator, plus metamorphic relations (dot==slash, exists, "
            "optional==required)",
            "Every document of <= 3 nodes x every path of <= 2 vocabulary "
            "segments is compared with a reference evaluator written from "
            "the README (complete; repeated with the keys moved onto "
            "negative/zero/wide integers and number-like or spaced text), "
            "larger scopes by seed-offset stride, "
            "random documents with anchors and derived paths beyond; same "
            "positions, same order, same multiplicity. Documentation-silent "
            "corners are Unspecified and counted, not decided.",
            TRUST + "The reference evaluator (vp/model/query.py, "
            "vp/model/compare.py) is the oracle; crashes are left to C15.",
            "6/C01"),
    "C02": (True, "exploration",
            "exhaustive small-scope enumeration + Hypothesis generation "
            "against invariants over every result (coordinates, ancestry "
            "chain, path round-trip) - a round-trip / invariant oracle",
            "Every non-virtual result of ~2.4e6 queries (documents <= 3 "
            "nodes whose keys carry each of the 13 escapable characters or "
            "are negative/zero/wide integers x "
            "paths <= 2 segments incl. keyword searches; random anchored "
            "documents beyond) must satisfy parent[parentref] is node, a "
            "walkable ancestry chain from the root, and a reported path "
            "that re-resolves to exactly that node in both notations, with "
            "no path object mutated after it was handed out.",
            TRUST, "6/C02"),
    "C03": (True, "exploration",
            "exhaustive small-scope enumeration of single edits + Hypothesis "
            "rule-based state machine over edit histories, compared step by "
            "step with a plain-data model; dump/reload round-trip",
            "Every scalar leaf of every document <= 3 nodes x 16 new values "
            "(null, bool, int, text, 6 floats incl. 10.0 / 1e20, literal "
            "look-alike texts; again with integer/number-like keys and "
            "through (parent)[i] Collector spellings, with and without a "
            "value format), "
            "vocabulary paths, an enumerated family of anchored/aliased "
            "documents, and ~1000 random histories of up to 12 set/create/"
            "delete steps on one living document; the model is recomputed "
            "from the untouched state before each step and the document "
            "must dump and strictly reload to the same data after each.",
            TRUST + "Matched positions are decided by the C01 reference "
            "evaluator.", "6/C03"),
    "C04": (True, "exploration",
            "exhaustive small-scope enumeration + Hypothesis generation, "
            "differential against a plain-data deletion model",
            "Every document <= 3 nodes x every vocabulary path <= 2 segments "
            "that matches something (again with integer/number-like keys, "
            "and with 1 next to '1'; Collector additions of node coordinates "
            "in every operand order, an element also under its negative "
            "index; slices that can hold no element) is "
            "deleted through both public entry "
            "points on fresh copies and compared with the model (matched set "
            "removed, everything else and its order kept); root deletion "
            "must be refused with the document unchanged.",
            TRUST + "Matched positions are decided by the C01 reference "
            "evaluator.", "6/C04"),
    "C05": (True, "exploration",
            "enumeration of document pairs x all 180 policy combinations "
            "(strided) against a reference merge model in validity form; "
            "exception-type oracle for impossible merges",
            "Ordered pairs from ~950 small documents plus a hand-shaped "
            "family (AoH with identity keys, sets, hashes of lists, type "
            "clashes) are merged under every hash x array x aoh x set policy "
            "combination (family x family under 12 rotating policies, all "
            "pairs by stride under all 180) and per-path rules/identity "
            "keys; the result must satisfy the policy-defined clauses (key "
            "union, per-key recursion, order preservation, append/unique "
            "rules) or be a MergeException where the merge is structurally "
            "impossible; no other exception type may escape. A frame clause "
            "for left hashes that inherit through a YAML merge key (the "
            "anchored hash and its other heirs keep their value, in memory "
            "and after dump+reload, own keys that override an inherited key "
            "included) runs under all 180 combinations.",
            TRUST, "6/C05"),
    "C08": (True, "exploration",
            "exhaustive small-scope enumeration of segment ASTs + Hypothesis "
            "generation with an independent writer; round-trip oracle "
            "(write -> parse -> compare; str -> parse; equality; append/pop)",
            "Every sequence of <= 2 segments from a ~240-item vocabulary "
            "covering all segment kinds, rendered by an independent writer "
            "in both notations and three escaping styles, must parse back to "
            "exactly the written segments; its canonical string must re-parse "
            "identically and be a fixed point in both notations; equality "
            "must coincide with AST equality - also when asked of one object "
            "before, between and after append()/pop(); append+pop must "
            "restore; confusable pairs (a special character inside a key vs "
            "acting as syntax, bare and inside Collectors) must compare "
            "unequal. Random <= 6-segment ASTs extend the scope.",
            TRUST + "The writer (vp/model/pathast.py) encodes the documented "
            "escapes and demarcation and is part of the oracle.", "6/C08"),
    "C09": (True, "exploration",
            "exhaustive small-scope enumeration with a before/after snapshot "
            "invariant (purity) and a pattern oracle with wildcards for "
            "padding (creation)",
            "~1.3e6 read-only calls (exists / required / optional-on-live "
            "paths, incl. ~350 collector expressions with +, -, & and "
            "nesting) must leave a typed snapshot of the document (data, key "
            "order, anchors, alias cells) unchanged; ~4e4 creations of "
            "missing key/index tails of length 1-3 below every container or "
            "null of every document <= 3 nodes must add exactly the tail "
            "(for a Set: exactly the named member); merge-key documents with "
            "own-key bookkeeping in the snapshot.",
            TRUST, "6/C09"),
    "C10": (True, "exploration",
            "exhaustive enumeration of an anchored-document family x anchor "
            "policies against an alias-cell model; dump/reload round-trip",
            "All pairs of left/right documents defining and aliasing scalar "
            "anchors from the pool {x, y, x_1} (aliases under keys and in "
            "sequences, optional second anchors so rename targets collide, "
            "falsy values, values equal only to Python such as true/1 and "
            "2/2.0, either side optionally wrapped whole in an "
            "anchored and aliased hash) x stop/left/right/rename: acceptance, the value "
            "every alias position reads, rename consistency/uniqueness, and "
            "a strict dump/reload of the result.",
            TRUST, "6/C10"),
    "C11": (True, "exploration",
            "exhaustive small-scope enumeration of (document, merge path, "
            "right document, policy) against the C05 model plus a frame "
            "pattern for everything outside the targets",
            "Every existing-node path, several multi-match paths, creatable "
            "missing tails and unmatchable searches on ~1100 left documents "
            "x 8 right documents of every root kind x rotating policies, "
            "per-path rules naming the merge point, a path beneath it or a "
            "sibling whose key merely extends the merge point's key, "
            "targets that are an anchored container or its alias (also "
            "matched twice through /*) under all 180 policies, and empty "
            "left documents: "
            "each target must be the policy merge of its old content, the "
            "complement must be untouched, unmatched paths must raise "
            "MergeException.",
            TRUST + "Targets are decided by the C01 reference evaluator.",
            "6/C11"),
    "C12": (True, "exploration",
            "complete finite grid + Hypothesis generation against a "
            "reference comparison table; metamorphic inversion-complement "
            "relation on enumerated documents",
            "The full operator x haystack x needle grid (9 x 52 x 43, incl. "
            "integers past 2**53 and 10**400) is "
            "compared with a reference table written from the statement; "
            "a Boolean against a number is textual, as the statement says; "
            "terms holding path-special characters are evaluated through the "
            "Processor in every escaping style; "
            "cells the documentation leaves open are Unspecified and only "
            "checked for not raising. The inverted search must be the exact "
            "complement of the plain one on every list/hash/set of ~1.2e5 "
            "(document, search) pairs.",
            TRUST, "6/C12"),
    "C13": (True, "exploration",
            "exhaustive small-scope enumeration against definitional "
            "oracles (Counter / max on plain values)",
            "Every same-kind scalar sequence, Array-of-Hashes and "
            "hash-of-hashes of <= 4 members (with ties, repeats, nulls, "
            "missing and null attributes, null members) x keyword x inversion "
            "x parameter "
            "presence is compared with the keyword's definition; "
            "parent(n)/name() at every position of the C01 documents.",
            TRUST, "6/C13"),
    "C15": (True, "exploration",
            "exhaustive small-scope enumeration + Hypothesis generation "
            "against an exception-type oracle with signature bucketing",
            "Every document of <= 3 nodes (4 thorough) x every path of <= 2 "
            "segments from a 61-item vocabulary built to hit index, slice, "
            "null, regex, literal, keyword and collector edge cases, plus a "
            "grammar grid (every keyword x 32 degenerate parameter texts, "
            "attribute x operator x term/regex grids, 50 key names that are "
            "literal syntax in Python/YAML, every raw text of <= 4 symbols "
            "the parser accepts) through "
            "required / exists / optional entry points; only "
            "YAMLPathException may escape. Root causes are bucketed by "
            "(type, frame, source line) so known findings do not hide new "
            "ones.",
            TRUST, "6/C15"),
    "C14": (True, "exploration",
            "exhaustive small-scope enumeration of path text + Hypothesis "
            "text generation + template/payload slot filling + atheris "
            "(libFuzzer) coverage-guided campaigns, all against an "
            "exception-type oracle with signature bucketing",
            "Every string of length <= 5 (quick) / <= 6 (thorough) over the "
            "27 syntactically significant symbols is parsed under three "
            "separator settings and must end in segments or "
            "YAMLPathException; ~10^5 Hypothesis texts (arbitrary Unicode, "
            "mutated valid paths) and 41 templates x 51 payloads (format "
            "braces, percent directives, non-ASCII digits, over-long "
            "numbers, control characters in every syntactic position) "
            "and coverage-guided atheris campaigns with the package instrumented "
            "(quick 8 x 12k executions, thorough 16 x 1.5M; half from an "
            "empty corpus) extend beyond the bound. Exhaustive within "
            "the bound, sampled beyond it; absence of violations beyond the "
            "explored scope is not established.",
            TRUST + "Non-termination is detected by an alarm, not proven "
            "absent.", "6/C14"),
}

CHECKS["C18"] = (True, "exploration",
    "enumeration of document-stream pairs x modes x policies; differential "
    "against a fresh pairwise fold (no shared objects) with a count/order "
    "oracle and a per-case termination watchdog",
    "Left/right streams of 1-3 documents from a 17-document pool (incl. an "
    "empty document, overlapping arrays, dates, anchors and merge keys) under "
    "condense_all / merge_across / matrix_merge and 5 policy mixes, and "
    "streams of documents defining one scalar anchor with equal and "
    "different values under the four anchor policies (>= 3 documents folded "
    "into one Merger), are pushed through get_doc_mergers()+merge_docs(); the "
    "number, order and content of outputs must equal a reference that "
    "re-loads every document from text and builds a new Merger for every "
    "pairwise step; failed "
    "steps must surface as a non-zero state; each case must terminate.",
    TRUST + "Pairwise merge correctness is C05's.", "6/C18")

CHECKS["C06"] = (True, "exploration",
    "enumeration of document pairs x 10 comparison-mode combinations against "
    "truthfulness / coverage / accounting predicates (no reference differ)",
    "Every document <= 3 nodes against itself, a hand-shaped family (nulls, "
    "empty containers, repeats, Arrays-of-Hashes, type clashes) pairwise, "
    "and strided pairs of all documents, under arrays x aoh modes: each "
    "entry is checked against both documents with an independent key/index "
    "walker, every leaf must be covered, a non-SAME entry must exist iff the "
    "data differ, and every list element must be accounted for once.",
    TRUST + "The harness reads the private DiffEntry._rhs.", "6/C06")

CHECKS["C07"] = (True, "exploration",
    "enumeration of documents x expressions x option sets against an "
    "independent reference search; re-query round-trip of every printed path",
    "Every set-free document <= 3 nodes (some with escapable keys) and a "
    "family with scalar anchors/aliases and anchored keys reused as aliased "
    "keys x 9 operators x inversion x 6 terms "
    "x {values, keys+values, keys only} x value-alias and key-alias "
    "inclusion x anchor-name "
    "search x expansion x both notations (~9e5 searches): each printed path "
    "must resolve, in its notation, to the one matched node; the reported "
    "set must equal the reference search's (sound and complete, aliases "
    "counted only on request); expansion must give the leaf descendants.",
    TRUST + "search_for_paths() is driven directly; the CLI wrapper "
    "(printing, de-duplication) is exercised by C16.", "6/C07")

CHECKS["C16"] = (True, "exploration",
    "generated invocations of the real console entry points (in-process, "
    "plus a subprocess sample); differential against the library calls and "
    "exit-status rules",
    "~1.5e5 generated invocations of yaml-get / yaml-set / yaml-merge / "
    "yaml-diff / yaml-validate / yaml-paths with file, '-' and implicit "
    "stdin delivery, YAML and JSON output, both notations, multi-document "
    "streams with -L/-R document selection (yaml-diff) and per-document "
    "results (yaml-paths); stdout, exit "
    "status and the written file must agree with the library-level result "
    "the other properties decide, file and stdin delivery must agree, and "
    "no invocation may end in an uncaught exception.",
    TRUST + "main() is called in-process with patched argv/stdio; the "
    "installed scripts are sampled as subprocesses.", "6/C16")

CHECKS["C17"] = (True, "fault_enumeration",
    "generated failure causes against a directory-snapshot oracle, and "
    "exhaustive single-fault enumeration over the I/O call sequence of each "
    "save (counting proxies installed in the command modules)",
    "Every pre-write failure cause (incl. changes that only fail when "
    "serialized) x document x {stale .bak, --backup} must "
    "exit non-zero with the directory byte-identical; for every successful "
    "yaml-set --backup / yaml-merge --overwrite --backup / eyaml-rotate-keys "
    "--backup base case (regular and symlinked targets) each of the save's "
    "I/O calls (open for write, every write(), copy2, remove, copyfileobj; "
    "each dump write() also as an AssertionError from the serializer) is "
    "failed in turn and the target "
    "or its .bak must still hold the complete pre-image; a completed run "
    "- also one whose edit leaves the bytes unchanged - must leave .bak "
    "identical to the pre-image.",
    TRUST + "Faults are injected at Python-level I/O call boundaries, not by "
    "killing the process; eyaml is a stand-in executable.", "6/C17")

CHECKS["C19"] = (True, "exploration",
    "Hypothesis-generated documents with secrets produced by a stand-in "
    "eyaml executable; round-trip oracle (decrypt under new / old keys) plus "
    "frame and invocation-count invariants",
    "Seeded Hypothesis documents mixing plaintext with encrypted scalars at "
    "arbitrary positions (hash values, list elements, anchored + aliased, "
    "inside anchored containers aliased elsewhere, tab / CR LF before the "
    "marker, "
    "plain / quoted / folded / literal styles, awkward plaintexts incl. "
    "CR LF line ends), alone "
    "or two files per run, are rotated through the real eyaml-rotate-keys "
    "entry point against a stand-in eyaml: every secret must decrypt under "
    "the new keys to its old plaintext and no longer under the old keys, "
    "aliases stay shared and are rotated once, everything else and the "
    "bytes/mtime of secret-free files are untouched, .bak equals the "
    "pre-image.",
    TRUST + "The real hiera-eyaml binary is absent; "
    "vp/tools/fake_eyaml.py implements the same command-line protocol with "
    "a keyed reversible cipher.", "6/C19")

ALL = ["C%02d" % i for i in range(1, 20)]


def main():
    checks = []
    na = []
    for pid in ALL:
        entry = CHECKS.get(pid)
        if not entry or not entry[0]:
            na.append({"property_id": pid,
                       "reason": "check not built yet in this tree (planned "
                                 "in DESIGN.md section 6; the technique "
                                 "applies)"})
            continue
        _, cat, tech, text, note, ref = entry
        checks.append({
            "property_id": pid,
            "quick_cmd": "./check %s --tier quick" % pid,
            "thorough_cmd": "./check %s --tier thorough" % pid,
            "evidence_file": "evidence/%s.json" % pid,
            "replay_cmd_template": "./check %s --replay {path}" % pid,
            "engine": "vp/props/%s.py" % pid.lower(),
            "level_claimed": {"category": cat, "text": text,
                              "design_ref": "DESIGN.md section " + ref},
            "level_note": note,
            "technique": tech,
        })
    manifest = {
        "version": 1,
        "setup_cmd": ("/venv/bin/python -c 'import hypothesis' 2>/dev/null || "
                      "/venv/bin/pip install --no-index --find-links "
                      "/opt/veriftools/wheels hypothesis; "
                      "/venv/bin/pip install -q --no-index --find-links "
                      "/opt/veriftools/wheels --target /verif/.deps atheris "
                      "|| true"),
        "hooks": {
            "guard": "YAMLPATH_VERIF",
            "enable": "no hooks are compiled into /repo; checks import "
                      "yamlpath from $VP_REPO (default /repo) and observe "
                      "public API results, file bytes and exit codes",
            "baseline_off_cmd": "cd /repo && /venv/bin/python -m pytest -ra -q "
                                "-p no:cacheprovider --timeout=900 "
                                "--continue-on-collection-errors",
            "source_commits": [],
            "add_only": True,
        },
        "engines": [
            {"name": "E1 exhaustive small-scope enumeration",
             "path": "vp/runner.py", "serves_properties":
                 [c["property_id"] for c in checks
                  if c["property_id"] != "C19"],
             "kind_free_text": "itertools.product over small alphabets "
                               "(documents by node count, path vocabularies, "
                               "option sets, key/value variants), sharded "
                               "over 16 processes; collect-all with signature "
                               "bucketing"},
            {"name": "E2/E3 Hypothesis (seeded, collect-all; rule-based "
                     "state machine for C03 histories)",
             "path": "vp/hyp.py", "serves_properties":
                 ["C01", "C02", "C03", "C04", "C08", "C12", "C14", "C15",
                  "C19"],
             "kind_free_text": "property-based generation with @seed("
                               "VERIF_SEED), database=None, deadline=None; "
                               "failures are collected, bucketed by "
                               "signature and shrunk by the property's own "
                               "shrinker"},
            {"name": "E4 atheris / libFuzzer coverage-guided campaigns",
             "path": "vp/fuzz/target_c14.py",
             "serves_properties": ["C14"],
             "kind_free_text": "one libFuzzer process per shard, yamlpath "
                               "instrumented, token dictionary, empty and "
                               "seeded corpora; the target records the "
                               "smallest failing input per signature and "
                               "keeps fuzzing"},
            {"name": "E5 single-fault enumeration over I/O call sequences",
             "path": "vp/props/c17.py", "serves_properties": ["C17"],
             "kind_free_text": "counting proxies for open/write/copy2/remove "
                               "installed in the command modules; every k-th "
                               "call failed in turn (OSError; AssertionError "
                               "for dump writes)"},
        ],
        "checks": checks,
        "not_applicable": na,
        "notes": "All checks: ./check <id> --tier quick|thorough; exit 0 = "
                 "held on everything explored, 1 = VIOLATION line(s), 2 = "
                 "harness fault. Known findings live in known-findings.txt.",
    }
    path = os.path.join(ROOT, "MANIFEST.json")
    with open(path, "w", encoding="utf-8") as fh:
        json.dump(manifest, fh, indent=1)
        fh.write("\n")
    try:
        import jsonschema
        schema = json.load(open("/root/.vp/MANIFEST.schema.json"))
        jsonschema.validate(manifest, schema)
        print("MANIFEST.json valid; %d checks, %d not_applicable"
              % (len(checks), len(na)))
    except ImportError:
        print("MANIFEST.json written (jsonschema not importable here)")


if __name__ == "__main__":
    sys.exit(main())
