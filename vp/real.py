"""Thin adapters around the code under test (yamlpath public API)."""
from vp.gen.docs import logger
from vp.model.plain import is_seq, is_set, is_map, refkey


def processor(doc):
    from yamlpath import Processor
    return Processor(logger(), doc)


def ypath(text):
    from yamlpath import YAMLPath
    return YAMLPath(text)


def is_nodecoords(x):
    return type(x).__name__ == "NodeCoords"


def nc_ident(nc):
    """Position identity of a real result, comparable with model N.ident()."""
    node = nc.node
    if type(node) is list:
        # plain Python list = virtual result (slice / collector); real
        # sequences are ruamel CommentedSeq objects
        # virtual result (slice / collector)
        elems = []
        base = nc.parentref
        if is_seq(nc.parent) and isinstance(base, int) and base < 0:
            base += len(nc.parent)
        for k, e in enumerate(node):
            if is_nodecoords(e):
                elems.append(nc_ident(e))
            elif (is_seq(nc.parent) and isinstance(base, int)
                  and 0 <= base + k < len(nc.parent)
                  and nc.parent[base + k] is e):
                elems.append((id(nc.parent), repr(("i", base + k))))
            else:
                elems.append(("raw", repr(e)))
        return ("virt",) + tuple(elems)
    parent, ref = nc.parent, nc.parentref
    if parent is None:
        return ("root",)
    if is_set(parent):
        return ("member", repr(refkey(parent, ref)))
    if is_seq(parent):
        try:
            ref = int(ref)
            if ref < 0:
                ref += len(parent)
        except (TypeError, ValueError):
            return ("badref", repr(ref))
        return (id(parent), repr(("i", ref)))
    if is_map(parent):
        return (id(parent), repr(refkey(parent, ref)))
    return ("odd-parent", type(parent).__name__)


def run_required(proc, path):
    """Fully consume a required query.  Returns ("ok", [NodeCoords]) or
    ("unmatched",) or ("ype", exc); other exceptions propagate."""
    from yamlpath.exceptions import (YAMLPathException,
                                     UnmatchedYAMLPathException)
    try:
        return ("ok", list(proc.get_nodes(path, mustexist=True)))
    except UnmatchedYAMLPathException:
        return ("unmatched",)
    except YAMLPathException as exc:
        return ("ype", exc)


def run_optional(proc, path, default=None):
    from yamlpath.exceptions import YAMLPathException
    try:
        return ("ok", list(proc.get_nodes(path, mustexist=False,
                                          default_value=default)))
    except YAMLPathException as exc:
        return ("ype", exc)
