"""C12 - search operators compare values by the documented typed rules, and
an inverted search yields exactly the candidates the plain search does not."""
import datetime

from vp.runner import Result, Deadline, exc_site
from vp.gen import docs as gdocs
from vp.model import compare
from vp.model.compare import Unspecified
from vp.model.plain import is_map, is_seq, is_set
from vp import real

ID = "C12"
LEVEL = "exploration"

HAYSTACKS = [
    None, True, False, 0, 1, 2, -1, 10, 300, 0.5, 1.5, -3.75, 2.25, 1.0,
    "a", "b", "ab", "abc", "A", "", "1", "2", "10", "01", "1.5", "1.50",
    "true", "True", "TRUE", "false", "null", "None", "0x10", "1_0", "(1,)",
    "[1]", "{[1]:2}", "a b", "1e3", "été", "1.5-", "10-", "1.", "tru",
    "True-", "0-",
    # integers past 2**53 (adjacent ones differ by less than a float step)
    # and past the float range
    9007199254740992, 9007199254740993, -9007199254740993, 10 ** 400,
    1.7976931348623157e308,
]
NEEDLES = [
    "a", "b", "ab", "abc", "A", "", "1", "2", "10", "01", "-1", "0", "1.5",
    "1.50", "0.5", "300", "2.25", "-3.75", "1.0", "true", "True", "TRUE",
    "false", "null", "None", "0x10", "1_0", "(1,)", "[1]", "{[1]:2}", "a b",
    "^a", "b$", "1e3", "2021-01-01", ".", "\\d", "[a-b]", "x", "é",
    "9007199254740992", "9007199254740993", "1" + "0" * 400,
]
METHODS = compare.ALL_METHODS

RULE = ("E1: the complete grid 9 operators x %d haystacks (loaded YAML "
        "scalars: null, booleans, ints incl. neighbours past 2**53 and 10**400, floats, text, numeric strings, "
        "look-alike literals, a date) x %d needles through "
        "Searches.search_matches, compared with a reference table written "
        "from the statement (Unspecified cells only assert 'does not raise'); "
        "inversion: for every list/hash/set of every document <= 3 nodes (4 "
        "by stride) and 27 operator/attribute/term combinations the inverted "
        "query must return exactly the candidates the plain query does not, "
        "in document order. E2: Hypothesis text/number pairs incl. Unicode. "
        "Non-trivial = the reference table decides the cell (not "
        "Unspecified) / the candidate set has >= 2 members; distinct by "
        "cell or by (document, search)." % (len(HAYSTACKS) + 1, len(NEEDLES)))
ASSUMPTIONS = ["vp/model/compare.py is the oracle; cells it marks Unspecified "
               "are counted in labels and only checked for not raising",
               "invalid regular expressions are excluded here (C15)"]
EXHAUSTIVE = {"quick": True, "thorough": True}
SHARD_BUDGET_S = {"quick": 100, "thorough": 1800}
HARD_TIMEOUT_S = {"quick": 600, "thorough": 3600}


def load_haystacks():
    spec = ["L", [["S", h, None] for h in HAYSTACKS], None]
    text = gdocs.emit(spec) + "- 2021-01-01\n"
    doc, ok = gdocs.load(text)
    if not ok or len(doc) != len(HAYSTACKS) + 1:
        raise RuntimeError("haystack document failed to load")
    return list(doc)


def hay_kind(h):
    try:
        return compare.classify_value(h)[0]
    except Unspecified:
        return type(h).__name__


def needle_kind(n):
    try:
        return compare.classify_text(n)[0]
    except Unspecified:
        return "lookalike"


def check_cell(method, needle, hay, res, source="grid"):
    from yamlpath.common import Searches
    from yamlpath.enums import PathSearchMethods
    from yamlpath.exceptions import YAMLPathException
    res.evaluations += 1
    case = {"method": method, "needle": needle,
            "haystack": repr(hay), "hay_type": type(hay).__name__}
    try:
        exp = compare.match(method, needle, hay)
    except Unspecified:
        exp = None
    except Exception:
        exp = None    # e.g. a needle that is not a valid regex
        if method == "REGEX":
            return
    try:
        got = Searches.search_matches(PathSearchMethods[method], needle, hay)
    except YAMLPathException:
        if method == "REGEX":
            return
        got = "YAMLPathException"
    except Exception as exc:
        etype, frame, src = exc_site(exc)
        res.fail({"clause": "comparison-never-raises", "exc": etype,
                  "frame": frame, "at": src[:60]}, case,
                 "%s: %s" % (etype, exc))
        return
    if exp is None:
        res.label("unspecified-cell")
        return
    res.nontrivial(key=["cell", method, needle, repr(hay), type(hay).__name__],
                   sample=False)
    if len(res.samples) < 3 and needle and hay not in (None, ""):
        res.samples.append(dict(case, expected=exp, got=got))
    if got is not exp and got != exp:
        res.fail({"clause": "operator-answer", "method": method,
                  "hay": hay_kind(hay), "needle": needle_kind(needle)},
                 case, "expected %r got %r" % (exp, got))
    res.label("decided:%s" % method)


# -- inversion ---------------------------------------------------------------
INV_SEARCHES = []
for _m, _a, _t in [("EQUALS", ".", "a"), ("EQUALS", ".", "1"),
                   ("EQUALS", "a", "1"), ("EQUALS", "b", "a"),
                   ("STARTS_WITH", ".", "a"), ("ENDS_WITH", ".", "a"),
                   ("CONTAINS", ".", "a"), ("CONTAINS", "a", "1"),
                   ("REGEX", ".", "^a"), ("REGEX", "a", "1"),
                   ("GREATER_THAN", ".", "1"), ("GREATER_THAN", "a", "1"),
                   ("LESS_THAN", ".", "2"), ("LESS_THAN", "b", "b"),
                   ("GREATER_THAN_OR_EQUAL", ".", "1"),
                   ("GREATER_THAN_OR_EQUAL", "a", "1.5"),
                   ("LESS_THAN_OR_EQUAL", ".", "1"),
                   ("LESS_THAN_OR_EQUAL", "a", "a"),
                   ("EQUALS", ".", "true"), ("EQUALS", ".", ""),
                   ("EQUALS", "1", "1"), ("STARTS_WITH", "a", "a"),
                   ("ENDS_WITH", "b", "1"), ("EQUALS", ".", "b"),
                   ("GREATER_THAN", ".", "a"), ("LESS_THAN", ".", "b"),
                   ("EQUALS", "a", "")]:
    INV_SEARCHES.append((_m, _a, _t))


def _search_text(method, attr, term, inverted):
    from vp.model import pathast
    return pathast.write_path([("search", inverted, method, attr, term)], "/")


def candidates(node, attr):
    """The candidate set a search segment ranges over at this node."""
    from vp.model.query import N, kids
    n = N(node, None, None, ())
    if is_seq(node) or is_set(node):
        return [c.ident() for c in kids(n)]
    if is_map(node):
        if attr == ".":
            return [c.ident() for c in kids(n)]
        for k in node:
            if isinstance(k, str) and k == attr:
                return [(id(node), repr(real.refkey(node, k)))]
        return None           # descendant search: the hash itself
    return None


def check_inversion(doc, text, node, prefix, search, res):
    from yamlpath.exceptions import YAMLPathException
    method, attr, term = search
    proc = real.processor(doc)
    outs = []
    for inverted in (False, True):
        ptext = prefix + _search_text(method, attr, term, inverted)[1:] \
            if prefix else _search_text(method, attr, term, inverted)
        res.evaluations += 1
        try:
            got = list(proc.get_nodes(real.ypath(ptext), mustexist=False))
        except YAMLPathException:
            res.label("inversion:YAMLPathException")
            return
        except Exception as exc:
            res.label("inversion:crash(see C15):" + type(exc).__name__)
            return
        outs.append((ptext, got))
    cand = candidates(node, attr)
    plain = [real.nc_ident(g) for g in outs[0][1]]
    inv = [real.nc_ident(g) for g in outs[1][1]]
    case = {"doc": text, "plain": outs[0][0], "inverted": outs[1][0]}
    if cand is None:
        # the node itself is the single candidate
        total = len(plain) + len(inv)
        if total != 1:
            res.fail({"clause": "inversion-complement", "where": "self",
                      "method": method}, case,
                     "plain=%d inverted=%d results for one candidate"
                     % (len(plain), len(inv)))
        return
    if is_set(node):
        cand = [("member", c[1]) if c[0] != "member" else c for c in cand]
    merged = [c for c in cand if c in plain or c in inv]
    ok = (set(plain).isdisjoint(inv) and merged == cand
          and len(plain) + len(inv) == len(cand)
          and plain == [c for c in cand if c in set(plain)]
          and inv == [c for c in cand if c in set(inv)])
    if len(cand) >= 2:
        res.nontrivial(key=["inv", text, outs[0][0]], sample=False)
    if not ok:
        kind = ("seq" if is_seq(node) else "map" if is_map(node) else "set")
        res.fail({"clause": "inversion-complement", "where": kind,
                  "method": method, "attr": "." if attr == "." else "named"},
                 case, "candidates=%d plain=%r inverted=%r" % (
                     len(cand), [g.node for g in outs[0][1]],
                     [g.node for g in outs[1][1]]))
    res.label("inversion-checked")


def containers_of(doc):
    """(node, slash path prefix) for the root and first-level containers."""
    from vp.model import pathast
    out = [(doc, "")]
    if is_map(doc):
        for k, v in doc.items():
            if is_map(v) or is_seq(v) or is_set(v):
                out.append((v, pathast.write_path([("key", str(k))], "/")))
    elif is_seq(doc):
        for i, v in enumerate(doc):
            if is_map(v) or is_seq(v) or is_set(v):
                out.append((v, "/[%d]" % i))
    return out


# -- terms that need escaping, through the Processor -------------------------
ESC_VALUES = ["a.b", "a b", "x/y", "a]b", "a[b", "p(q", "it's", 'say "x"',
              "a\\b", "plain", "a.bc", " lead", "=x", "a=b", "!z", "a,b"]


def check_escaped_terms(res):
    """The term written in a path (escaped or quoted as the syntax requires)
    is compared as the text it stands for: over a list of strings that hold
    path-special characters, each text operator selects exactly the members
    the reference table selects for the raw term."""
    from vp.model import pathast
    from vp.model.compare import match, Unspecified
    from yamlpath.exceptions import YAMLPathException
    text = "l:\n" + "".join("  - %s\n" % gdocs.scalar_text(v, quote=True)
                            for v in ESC_VALUES)
    doc, ok = gdocs.load(text)
    if not ok or [str(x) for x in doc["l"]] != ESC_VALUES:
        raise RuntimeError("escaped-term document does not load as written")
    proc = real.processor(doc)
    for method in ("EQUALS", "STARTS_WITH", "ENDS_WITH", "CONTAINS"):
        for term in ESC_VALUES + ["a", "b", ".", " "]:
            try:
                want = [v for v in ESC_VALUES if match(method, term, v)]
            except Unspecified:
                res.label("escaped-term:unspecified")
                continue
            for inverted in (False, True):
                exp = [v for v in ESC_VALUES if v not in want] if inverted \
                    else want
                for sep in "./":
                    for style in range(5):
                        ptext = pathast.write_path(
                            [("key", "l"),
                             ("search", inverted, method, ".", term)],
                            sep, style)
                        res.evaluations += 1
                        case = {"doc": text, "path": ptext, "term": term,
                                "escaped-term": True}
                        try:
                            got = [str(n.node) for n in proc.get_nodes(
                                real.ypath(ptext), mustexist=False)]
                        except YAMLPathException as exc:
                            res.fail({"clause": "escaped-term-selects-by-its-"
                                      "text", "method": method,
                                      "why": "YAMLPathException"}, case,
                                     "%s" % exc)
                            continue
                        except Exception as exc:
                            res.label("escaped-term:crash(see C15):"
                                      + type(exc).__name__)
                            continue
                        if got != exp:
                            res.fail({"clause": "escaped-term-selects-by-its-"
                                      "text", "method": method,
                                      "inverted": inverted,
                                      "why": "different-selection"}, case,
                                     "expected %r got %r" % (exp, got))
                            continue
                        if exp and len(exp) < len(ESC_VALUES):
                            res.nontrivial(key=["esc", ptext], sample=False)
                        res.label("escaped-term-checked")


# -- planning ----------------------------------------------------------------
def plan(tier, seed):
    shards = [{"kind": "escterm"}]
    for m in METHODS:
        shards.append({"kind": "grid", "method": m})
    nsh = 24
    for i in range(nsh):
        shards.append({"kind": "inv", "part": i, "parts": nsh, "nmax": 3,
                       "stride": 1, "offset": seed})
    for i in range(nsh):
        shards.append({"kind": "inv", "part": i, "parts": nsh, "nmin": 4,
                       "nmax": 4, "offset": seed,
                       "stride": 12 if tier == "quick" else 1})
    nh, per = (8, 2500) if tier == "quick" else (32, 30000)
    for i in range(nh):
        shards.append({"kind": "hyp", "seed": seed * 1000 + i,
                       "examples": per})
    return shards


def run_shard(shard):
    res = Result()
    dl = Deadline(shard.get("budget_s"))
    if shard["kind"] == "escterm":
        check_escaped_terms(res)
    elif shard["kind"] == "grid":
        hays = load_haystacks()
        for hay in hays:
            for needle in NEEDLES:
                check_cell(shard["method"], needle, hay, res)
    elif shard["kind"] == "inv":
        specs = []
        for n in range(shard.get("nmin", 1), shard["nmax"] + 1):
            specs.extend(gdocs.specs_exact(n))
        for di in range(shard["part"], len(specs), shard["parts"]):
            if shard["stride"] > 1 and (di + shard["offset"]) % shard["stride"]:
                continue
            if dl.expired():
                res.truncated = True
                break
            text = gdocs.emit(specs[di])
            doc, ok = gdocs.load(text)
            if not ok or doc is None:
                continue
            for node, prefix in containers_of(doc):
                if not (is_map(node) or is_seq(node) or is_set(node)):
                    continue
                for search in INV_SEARCHES:
                    check_inversion(doc, text, node, prefix, search, res)
    else:
        _run_hyp(shard, res, dl)
    return res


def _run_hyp(shard, res, dl):
    from hypothesis import strategies as st
    from vp.hyp import run_given
    texts = st.one_of(
        st.text(max_size=8),
        st.text(alphabet="ab01.-e_xTrueFals ", max_size=8),
        st.integers(-1000, 1000).map(str),
        st.sampled_from(NEEDLES))
    hay = st.one_of(
        st.none(), st.booleans(), st.integers(-10**6, 10**6),
        st.sampled_from([0.5, 1.5, 2.25, -3.75, 1.0, 100.0]),
        st.text(max_size=8), st.sampled_from([h for h in HAYSTACKS]))
    strat = st.tuples(st.sampled_from(METHODS), texts, hay)

    def body(value):
        method, needle, h = value
        if method == "REGEX":
            import re
            try:
                re.compile(needle)
            except re.error:
                res.label("hyp:invalid-regex-skipped")
                return
            except Exception:
                return
        check_cell(method, needle, h, res, "hyp")

    run_given(strat, body, shard["seed"], shard["examples"], dl)


def replay(case):
    res = Result()
    if case.get("escaped-term"):
        check_escaped_terms(res)
        return [r for _, recs in res.failures.values() for r in recs]
    if "method" in case:
        hays = load_haystacks() + [True, False, None]
        target = None
        for h in hays:
            if repr(h) == case["haystack"] and \
                    type(h).__name__ == case["hay_type"]:
                target = h
                break
        if target is None:
            import ast
            try:
                target = ast.literal_eval(case["haystack"])
            except Exception:
                target = case["haystack"]
        check_cell(case["method"], case["needle"], target, res, "replay")
    else:
        doc, ok = gdocs.load(case["doc"])
        if not ok:
            raise RuntimeError("replay document does not load")
        from yamlpath import YAMLPath
        from vp.model import pathast
        segs = pathast.from_parsed(YAMLPath(case["plain"]).escaped)
        search = segs[-1]
        prefix_segs = segs[:-1]
        node = doc
        for s in prefix_segs:
            node = node[s[1]] if s[0] == "index" else node[
                [k for k in node if str(k) == s[1]][0]]
        prefix = pathast.write_path(prefix_segs, "/") if prefix_segs else ""
        check_inversion(doc, case["doc"], node, prefix,
                        (search[2], search[3], search[4]), res)
    return [r for _, recs in res.failures.values() for r in recs]
