"""C03 - a set changes exactly the matched nodes (and their aliases), nothing
else; after any sequence of edits the document dumps and reloads to the same
data."""
import itertools
import json

from vp.runner import Result, Deadline, exc_site
from vp.gen import docs as gdocs, paths as gpaths
from vp.model import query as mq, edit as medit
from vp.model.compare import Unspecified
from vp.model.plain import (canon, cscalar, positions, is_seq, is_map, is_set,
                            is_container, anchor_of, anchors, alias_cells)
from vp import real

ID = "C03"
LEVEL = "exploration"
NEW_VALUES = [None, True, 7, 2.25, "zz", "",
              # floats whose shortest spelling has no fraction digit, many
              # digits, or an exponent
              10.0, 1.0, -300.0, 1e20, 0.1 + 0.2, 1.5e-7,
              # text that is literal syntax for something else in Python
              "None", "{}", "0x1F", "(1, 2)"]
RULE = ("E1: every document with <= 3 nodes (4 by stride; C01 alphabet, so "
        "repeated equal scalars, values spelled like keys and sets occur) x "
        "every scalar leaf addressed by its coordinate path x 16 new values "
        "(null, true, 7, 2.25, 'zz', '') and 6 floats (10.0, 1.0, -300.0, 1e20, "
        "0.30000000000000004, 1.5e-07) and 4 literal look-alike texts ('None', "
        "'{}', '0x1F', '(1, 2)'), the same with the keys moved onto "
        "-1 / 0 / 12 / '-1' / 'b c', sequence elements also addressed as "
        "(parent)[i] through a Collector, plus C01-vocabulary paths matching "
        "only scalars; an enumerated family of anchored documents (scalar "
        "anchors aliased under keys, inside sequences and next to sets) with "
        "a set through the anchor and through each alias. Oracle: a "
        "plain-data walk of an untouched copy with the matched positions "
        "(and all aliases of a matched anchored object) replaced; every "
        "other key, value, order, anchor name and alias cell must be "
        "identical; dump + strict reload must give the same data. E3: "
        "Hypothesis rule-based state machine mixing set / create / delete on "
        "one living document, model recomputed before every step, dump/reload "
        "invariant after every step. Non-trivial = the document holds a "
        "bystander equal to the old value, a key spelled like it, an alias "
        "of the target, or the step is part of a history of >= 3 edits; "
        "distinct by (document, path, value) / history hash.")
ASSUMPTIONS = ["matched positions come from the C01 reference evaluator",
               "new values are restricted to ones whose default formatting "
               "is unambiguous"]
EXHAUSTIVE = {"quick": False, "thorough": False}
SHARD_BUDGET_S = {"quick": 100, "thorough": 2400}
HARD_TIMEOUT_S = {"quick": 900, "thorough": 7200}


def path_segs(path):
    """positions()-style path -> AST segments."""
    segs = []
    for step in path:
        if step[0] == "i":
            segs.append(("index", step[1]))
        elif len(step) > 2 and str(step[2]) != "":
            segs.append(("key", str(step[2])))
        else:
            return None
    return segs


def doc_shape(doc, targets, oldvals):
    """Class of the case for the signature / non-trivial rule."""
    flags = []
    tkeys = {medit.poskey(t.p, t.r) for t in targets}
    tids = {id(t.v) for t in targets if anchor_of(t.v) is not None}
    olds = [json.dumps(cscalar(v)) for v in oldvals]
    for path, node, parent, ref in positions(doc):
        if parent is None:
            continue
        key = medit.poskey(parent, ref)
        if key in tkeys:
            continue
        if id(node) in tids:
            flags.append("alias-in-seq" if is_seq(parent)
                         else "alias-under-key")
        elif not is_container(node) and json.dumps(cscalar(node)) in olds:
            flags.append("equal-bystander-in-seq" if is_seq(parent)
                         else "equal-bystander")
        if is_map(parent) and json.dumps(cscalar(ref)) in olds:
            flags.append("key-spelled-like-old-value")
        if is_set(node):
            flags.append("set-present")
    return "+".join(sorted(set(flags))) or "plain"


def _set_collision(matches, value):
    """A Python set cannot hold two members that compare equal (1 and true):
    replacing a member by a value equal to a sibling is Unspecified."""
    for m in matches:
        if is_set(m.p) and any(o is not m.v and o == value for o in m.p):
            return True
    return False


def check_set(text, segs, value, res, doc_a=None, expect_targets=None,
              ptext_override=None, value_format=None):
    """One set on a fresh copy.  doc_a: untouched loaded copy.
    ptext_override: another spelling of the same selection (e.g. through a
    Collector); the model still evaluates segs."""
    from yamlpath.exceptions import YAMLPathException
    if doc_a is None:
        doc_a, ok = gdocs.load(text)
        if not ok or doc_a is None:
            return
    try:
        matches = medit.flatten_matches(mq.evaluate(doc_a, segs))
    except (Unspecified, mq.ModelError):
        res.label("unspecified")
        return
    if not matches or any(is_container(m.v) or m.p is None for m in matches):
        res.label("not-a-scalar-target")
        return
    if _set_collision(matches, value):
        res.label("unspecified:set-member-collision")
        return
    ptext = ptext_override or gpaths.render(segs, ".")
    replace = {medit.poskey(m.p, m.r) for m in matches}
    alias_ids = {id(m.v) for m in matches if anchor_of(m.v) is not None}
    newc = cscalar(value)
    if value_format == "dquote":
        newc = cscalar(str(value))      # written demarcated: it is text
    expected = medit.sorted_set_canon(
        medit.canon_replace(doc_a, replace, alias_ids, newc))
    shape = doc_shape(doc_a, matches, [m.v for m in matches])
    anchors_before = sorted(set(anchors(doc_a).values()))
    cells_before = [[repr(p) for p in g] for g in alias_cells(doc_a)]
    case = {"doc": text, "path": gpaths.to_json(segs), "value": value}
    if ptext_override:
        case["text"] = ptext_override
    if value_format:
        case["value_format"] = value_format
    res.evaluations += 1
    doc_b, _ = gdocs.load(text)
    proc = real.processor(doc_b)
    try:
        if value_format:
            from yamlpath.enums import YAMLValueFormats
            proc.set_value(real.ypath(ptext), value, mustexist=True,
                           value_format=YAMLValueFormats.from_str(
                               value_format))
        else:
            proc.set_value(real.ypath(ptext), value, mustexist=True)
    except YAMLPathException as exc:
        res.fail({"clause": "unexpected-yamlpath-error", "shape": shape},
                 case, "%s" % exc)
        return
    except Exception as exc:
        etype, frame, src = exc_site(exc)
        res.fail({"clause": "no-crash", "exc": etype, "frame": frame,
                  "shape": shape}, case, "%s: %s (%s)" % (etype, exc, ptext))
        return
    after = medit.sorted_set_canon(canon(doc_b))
    if after != expected:
        res.fail({"clause": "exactly-the-matched-nodes-and-aliases",
                  "shape": shape}, case,
                 "path %s value %r\nexpected %s\ngot      %s" % (
                     ptext, value, json.dumps(expected), json.dumps(after)))
        return
    # anchors: same names; same alias cells (positions sharing an object)
    if value is not None:
        anchors_after = sorted(set(anchors(doc_b).values()))
        cells_after = [[repr(p) for p in g] for g in alias_cells(doc_b)]
        if anchors_after != anchors_before or cells_after != cells_before:
            res.fail({"clause": "anchors-preserved", "shape": shape}, case,
                     "anchors %r -> %r; cells %r -> %r" % (
                         anchors_before, anchors_after, cells_before,
                         cells_after))
            return
    _check_reload(doc_b, after, case, shape, res)
    if shape != "plain":
        res.nontrivial()
        if len(res.samples) < 3:
            res.samples.append(dict(case, dot=ptext, shape=shape))
    res.label("shape:" + shape)


def _check_reload(doc, after, case, shape, res):
    try:
        dumped = gdocs.dump(doc)
        again, ok = gdocs.load(dumped)
    except Exception as exc:
        res.fail({"clause": "dump-reload", "why": type(exc).__name__,
                  "shape": shape}, case, "%s" % exc)
        return False
    if not ok:
        res.fail({"clause": "dump-reload", "why": "strict-loader-rejects",
                  "shape": shape}, case, "dumped text:\n%s" % dumped)
        return False
    if medit.sorted_set_canon(canon(again)) != after:
        res.fail({"clause": "dump-reload", "why": "different-data",
                  "shape": shape}, case, "dumped text:\n%s" % dumped)
        return False
    return True


# -- anchored family ---------------------------------------------------------
def anchored_family():
    """(spec, [AST paths to set through]) for small aliased documents."""
    S = lambda v, a=None: ["S", v, a]
    A = ["A", "x"]
    out = []
    for v, w in itertools.product([1, "a", True, 1.5, "b c"], [1, "a", 2]):
        out.append((["M", [["a", S(v, "x")], ["b", A]], None],
                    [[("key", "a")], [("key", "b")]]))
        out.append((["M", [["a", S(v, "x")], ["b", ["L", [A], None]]], None],
                    [[("key", "a")], [("key", "b"), ("index", 0)]]))
        out.append((["M", [["a", S(v, "x")],
                           ["b", ["L", [A, S(w)], None]], ["c", A]], None],
                    [[("key", "a")], [("key", "c")],
                     [("key", "b"), ("index", 0)],
                     [("key", "b"), ("index", 1)]]))
        out.append((["L", [S(v, "x"), A, S(w)], None],
                    [[("index", 0)], [("index", 1)], [("index", 2)]]))
        out.append((["M", [["a", ["L", [S(v, "x")], None]],
                           ["b", ["M", [["c", A]], None]]], None],
                    [[("key", "a"), ("index", 0)], [("key", "b"),
                                                    ("key", "c")]]))
        out.append((["M", [["a", S(v, "x")],
                           ["b", ["L", [S(w), A], None]],
                           ["c", ["T", ["p", "q"], None]]], None],
                    [[("key", "a")], [("key", "b"), ("index", 1)],
                     [("key", "b"), ("index", 0)]]))
        out.append((["M", [["a", S(v, "x")], ["b", S(w, "y")],
                           ["c", ["L", [A, ["A", "y"], A], None]]], None],
                    [[("key", "a")], [("key", "b")],
                     [("key", "c"), ("index", 1)]]))
    return out


# -- histories (E3) ----------------------------------------------------------
def run_histories(shard, res, dl):
    import hypothesis
    from hypothesis import strategies as st
    from hypothesis.stateful import (RuleBasedStateMachine, rule, invariant,
                                     initialize, precondition)
    from vp.hyp import run_machine
    from yamlpath.exceptions import YAMLPathException

    class Edits(RuleBasedStateMachine):
        def __init__(self):
            super().__init__()
            self.doc = None
            self.text = None
            self.history = []
            self.broken = False

        @initialize(spec=gdocs.st_spec(max_leaves=8, with_anchors=True,
                                       with_sets=True))
        def start(self, spec):
            self.text = gdocs.emit(spec)
            self.doc, ok = gdocs.load(self.text)
            if not ok or self.doc is None or not is_container(self.doc):
                self.doc, _ = gdocs.load("a: 1\nb: [1, 1, a]\n")
                self.text = "a: 1\nb: [1, 1, a]\n"

        def _case(self):
            return {"start": self.text, "history": list(self.history)}

        def _scalars(self):
            return [(p, n, par, ref) for p, n, par, ref in positions(self.doc)
                    if par is not None and not is_container(n)
                    and path_segs(p) is not None]

        @rule(data=st.data(), value=st.sampled_from(NEW_VALUES))
        def set_existing(self, data, value):
            if self.broken:
                return
            cands = self._scalars()
            if not cands:
                return
            path, node, parent, ref = cands[data.draw(
                st.integers(0, len(cands) - 1))]
            segs = path_segs(path)
            ptext = gpaths.render(segs, ".")
            try:
                matches = medit.flatten_matches(mq.evaluate(self.doc, segs))
            except (Unspecified, mq.ModelError):
                return
            if not matches or any(is_container(m.v) for m in matches):
                return
            if _set_collision(matches, value):
                return
            replace = {medit.poskey(m.p, m.r) for m in matches}
            alias_ids = {id(m.v) for m in matches
                         if anchor_of(m.v) is not None}
            expected = medit.sorted_set_canon(medit.canon_replace(
                self.doc, replace, alias_ids, cscalar(value)))
            self.history.append(["set", ptext, value])
            self._apply(lambda proc: proc.set_value(
                real.ypath(ptext), value, mustexist=True), expected, "set")

        @rule(data=st.data())
        def delete(self, data):
            if self.broken:
                return
            cands = [(p, n, par, ref) for p, n, par, ref in
                     positions(self.doc) if par is not None
                     and path_segs(p) is not None]
            if not cands:
                return
            path, node, parent, ref = cands[data.draw(
                st.integers(0, len(cands) - 1))]
            segs = path_segs(path)
            ptext = gpaths.render(segs, ".")
            try:
                matches = medit.flatten_matches(mq.evaluate(self.doc, segs))
            except (Unspecified, mq.ModelError):
                return
            if not matches or any(m.p is None for m in matches):
                return
            delset = {medit.poskey(m.p, m.r) for m in matches}
            expected = medit.sorted_set_canon(
                medit.canon_without(self.doc, delset))
            self.history.append(["delete", ptext])

            def op(proc):
                for _ in proc.delete_nodes(real.ypath(ptext)):
                    pass
            self._apply(op, expected, "delete")

        @rule(data=st.data(), value=st.sampled_from([7, "zz", True]),
              key=st.sampled_from(["n", "m", "new"]),
              pad=st.sampled_from([0, 0, 1, 2]))
        def create(self, data, value, key, pad):
            if self.broken:
                return
            conts = [(p, n) for p, n, par, ref in positions(self.doc)
                     if (is_map(n) or is_seq(n)) and path_segs(p) is not None]
            if not conts:
                return
            path, node = conts[data.draw(st.integers(0, len(conts) - 1))]
            segs = path_segs(path)
            if is_map(node):
                if any(str(k) == key for k in node):
                    return
                segs = segs + [("key", key)]
                pad = 0
            else:
                segs = segs + [("index", len(node) + pad)]
            ptext = gpaths.render(segs, ".")
            try:
                base = mq.evaluate(self.doc, segs[:-1])
            except (Unspecified, mq.ModelError):
                return
            if len(base) != 1:
                return
            container = node
            before_len = len(node)
            self.history.append(["create", ptext, value])

            def expected_after():
                # padding content is not asserted: copy it from the result
                filler = [cscalar(x) if not is_container(x) else canon(x)
                          for x in list(container)[before_len:before_len + pad]
                          ] if is_seq(container) else []
                return medit.sorted_set_canon(_canon_with_child(
                    self.doc, container, key if is_map(container) else None,
                    cscalar(value), filler, before_len))
            self._apply(lambda proc: proc.set_value(
                real.ypath(ptext), value, mustexist=False), expected_after,
                "create")

        def _apply(self, op, expected, what):
            res.evaluations += 1
            proc = real.processor(self.doc)
            try:
                op(proc)
            except YAMLPathException as exc:
                res.fail({"clause": "history-step-yamlpath-error",
                          "op": what}, self._case(), "%s" % exc)
                self.broken = True
                return
            except Exception as exc:
                etype, frame, src = exc_site(exc)
                res.fail({"clause": "history-step-crash", "op": what,
                          "exc": etype, "frame": frame}, self._case(),
                         "%s: %s" % (etype, exc))
                self.broken = True
                return
            after = medit.sorted_set_canon(canon(self.doc))
            if callable(expected):
                expected = expected()
            if after != expected:
                res.fail({"clause": "history-step-model", "op": what},
                         self._case(),
                         "expected %s\ngot      %s" % (json.dumps(expected),
                                                       json.dumps(after)))
                self.broken = True
                return
            if not _check_reload(self.doc, after, self._case(),
                                 "history:" + what, res):
                self.broken = True
            if len(self.history) >= 3:
                res.nontrivial(key=[self.text, self.history], sample=False)
                if len(res.samples) < 2 and len(self.history) >= 5:
                    res.samples.append(self._case())
            res.label("history-step:" + what)

    run_machine(Edits, shard["seed"], shard["examples"], shard["steps"])


def _canon_with_child(doc, container, key, newc, filler=(), upto=None):
    """canon(doc) as it was before a creation - `container` (by identity)
    truncated to its first `upto` children - plus filler and the new child."""
    def walk(node):
        if is_map(node):
            items = [[cscalar(k), walk(v)] for k, v in node.items()]
            if node is container:
                items = [it for it in items if it[0] != cscalar(key)]
                items.append([cscalar(key), newc])
            return ["M", items]
        if is_seq(node):
            if node is container:
                kids = list(node)[:upto] if upto is not None else list(node)
                return ["L", [walk(v) for v in kids] + list(filler) + [newc]]
            return ["L", [walk(v) for v in node]]
        if is_set(node):
            return ["T", [cscalar(m) for m in node]]
        return cscalar(node)
    return walk(doc)


def replay_history(case, res):
    """Deterministic re-run of a recorded history (no Hypothesis)."""
    from yamlpath.exceptions import YAMLPathException
    doc, ok = gdocs.load(case["start"])
    if not ok:
        raise RuntimeError("history start document does not load")
    from yamlpath import YAMLPath
    from vp.model import pathast
    for step in case["history"]:
        op, ptext = step[0], step[1]
        segs = pathast.from_parsed(YAMLPath(ptext).escaped)
        proc = real.processor(doc)
        res.evaluations += 1
        try:
            if op == "set":
                matches = medit.flatten_matches(mq.evaluate(doc, segs))
                replace = {medit.poskey(m.p, m.r) for m in matches}
                alias_ids = {id(m.v) for m in matches
                             if anchor_of(m.v) is not None}
                expected = medit.canon_replace(doc, replace, alias_ids,
                                               cscalar(step[2]))
                proc.set_value(real.ypath(ptext), step[2], mustexist=True)
            elif op == "delete":
                matches = medit.flatten_matches(mq.evaluate(doc, segs))
                delset = {medit.poskey(m.p, m.r) for m in matches}
                expected = medit.canon_without(doc, delset)
                for _ in proc.delete_nodes(real.ypath(ptext)):
                    pass
            else:
                base = mq.evaluate(doc, segs[:-1])[0].v
                blen = len(base)
                pad = (segs[-1][1] - blen) if is_seq(base) else 0
                proc.set_value(real.ypath(ptext), step[2], mustexist=False)
                filler = [cscalar(x) if not is_container(x) else canon(x)
                          for x in list(base)[blen:blen + pad]] \
                    if is_seq(base) else []
                expected = _canon_with_child(
                    doc, base, segs[-1][1] if is_map(base) else None,
                    cscalar(step[2]), filler, blen)
        except YAMLPathException as exc:
            res.fail({"clause": "history-step-yamlpath-error", "op": op},
                     case, "%s" % exc)
            return
        except (Unspecified, mq.ModelError):
            return
        except Exception as exc:
            etype, frame, src = exc_site(exc)
            res.fail({"clause": "history-step-crash", "op": op, "exc": etype,
                      "frame": frame}, case, "%s: %s" % (etype, exc))
            return
        expected = medit.sorted_set_canon(expected)
        after = medit.sorted_set_canon(canon(doc))
        if after != expected:
            res.fail({"clause": "history-step-model", "op": op}, case,
                     "after %r\nexpected %s\ngot      %s" % (
                         step, json.dumps(expected), json.dumps(after)))
            return
        if not _check_reload(doc, after, case, "history:" + op, res):
            return


# -- planning ----------------------------------------------------------------
_VPATHS = None


def vocab_paths():
    global _VPATHS
    if _VPATHS is None:
        _VPATHS = [[tuple(s) for s in segs]
                   for n in (1, 2) for segs in gpaths.enum_paths_exact(n)]
    return _VPATHS


def plan(tier, seed):
    shards = []
    nsh = 32
    for i in range(nsh):
        shards.append({"kind": "coord", "nmax": 3, "part": i, "parts": nsh,
                       "stride": 1, "offset": seed})
    for i in range(nsh):
        shards.append({"kind": "coord", "nmin": 4, "nmax": 4, "part": i,
                       "parts": nsh, "offset": seed,
                       "stride": 6 if tier == "quick" else 1})
    for kv in range(len(gdocs.KEY_VARIANTS)):
        for i in range(4):
            shards.append({"kind": "coord", "nmax": 3 if tier == "quick"
                           else 4, "part": i, "parts": 4, "stride": 1,
                           "offset": seed, "keyvar": kv})
    for i in range(nsh):
        shards.append({"kind": "vocab", "nmax": 3, "part": i, "parts": nsh,
                       "offset": seed,
                       "stride": 16 if tier == "quick" else 2})
    shards.append({"kind": "anchored"})
    nh = 16 if tier == "quick" else 64
    for i in range(nh):
        shards.append({"kind": "hist", "seed": seed * 1000 + i,
                       "examples": 60 if tier == "quick" else 600,
                       "steps": 12 if tier == "quick" else 40})
    return shards


def run_shard(shard):
    res = Result()
    dl = Deadline(shard.get("budget_s"))
    kind = shard["kind"]
    if kind in ("coord", "vocab"):
        specs = []
        for n in range(shard.get("nmin", 1), shard["nmax"] + 1):
            specs.extend(gdocs.specs_exact(n))
        if shard.get("keyvar") is not None:
            name, pairs, _ = gdocs.KEY_VARIANTS[shard["keyvar"]]
            specs = [gdocs.remap_keys(s, pairs) for s in specs
                     if any(gdocs.has_key(s, old) for old, _ in pairs)]
            res.label("keyvar:" + name)
        for di in range(shard["part"], len(specs), shard["parts"]):
            if dl.expired():
                res.truncated = True
                break
            if kind == "coord" and shard["stride"] > 1 and \
                    (di // shard["parts"] + shard["offset"]) % shard["stride"]:
                continue
            text = gdocs.emit(specs[di])
            doc_a, ok = gdocs.load(text)
            if not ok or doc_a is None:
                continue
            if kind == "coord":
                for path, node, parent, ref in positions(doc_a):
                    if parent is None or is_container(node):
                        continue
                    segs = path_segs(path)
                    if segs is None:
                        continue
                    for value in NEW_VALUES:
                        check_set(text, segs, value, res, doc_a)
                    if isinstance(node, str) and node.isalpha() and \
                            node.lower() not in ("true", "false", "null",
                                                 "yes", "no", "on", "off"):
                        # the value it already holds (a re-run of the same
                        # edit): nothing may change - a Set keeps its member
                        check_set(text, segs, str(node), res, doc_a)
                        res.label("set-to-its-own-value:%s" % (
                            "set-member" if is_set(parent) else "other"))
                    if is_seq(parent) and len(segs) >= 2 and \
                            shard.get("keyvar") is None:
                        # the same element reached through a Collector that
                        # gathers its parent sequence: (P)[i]
                        coll = "(%s)[%d]" % (gpaths.render(segs[:-1], "."),
                                             segs[-1][1])
                        for value in NEW_VALUES[2:4]:
                            check_set(text, segs, value, res, doc_a,
                                      ptext_override=coll)
                        # a requested format must reach Collector results
                        # (and plain paths) alike: "7" demarcated is text
                        check_set(text, segs, "7", res, doc_a,
                                  ptext_override=coll, value_format="dquote")
                        check_set(text, segs, "7", res, doc_a,
                                  value_format="dquote")
                        res.label("collector-spelling")
            else:
                for pi, segs in enumerate(vocab_paths()):
                    if (di * 31 + pi + shard["offset"]) % shard["stride"]:
                        continue
                    value = NEW_VALUES[(di + pi) % len(NEW_VALUES)]
                    check_set(text, segs, value, res, doc_a)
    elif kind == "anchored":
        for spec, plist in anchored_family():
            text = gdocs.emit(spec)
            doc_a, ok = gdocs.load(text)
            if not ok:
                raise RuntimeError("anchored doc does not load: %r" % text)
            for segs in plist:
                for value in NEW_VALUES:
                    check_set(text, segs, value, res, doc_a)
    else:
        run_histories(shard, res, dl)
    return res


def replay(case):
    res = Result()
    if "history" in case:
        replay_history(case, res)
    else:
        check_set(case["doc"], gpaths.from_json(case["path"]), case["value"],
                  res, ptext_override=case.get("text"),
                  value_format=case.get("value_format"))
    return [r for _, recs in res.failures.values() for r in recs]
