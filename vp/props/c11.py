"""C11 - a merge aimed at a path changes only what lies under that path."""
import json
from types import SimpleNamespace

from vp.runner import Result, Deadline, exc_site
from vp.gen import docs as gdocs, paths as gpaths
from vp.model import merge as mm, query as mq, edit as medit
from vp.model.compare import Unspecified
from vp.model.plain import (canon, cscalar, positions, is_map, is_seq, is_set,
                            anchor_of,
                            is_container, refkey)
from vp.props import c05

ID = "C11"
LEVEL = "exploration"
RULE = ("E1: left documents = every document <= 3 nodes (no booleans) plus "
        "the C05 family, x merge paths in four classes - (1) the coordinate "
        "path of every existing node, (2) paths matching several nodes "
        "(/*, /a/*, /**/a, a search, Array slices), (1b) left documents whose target is an anchored list/hash or an alias of one (all 180 policies), (3) a missing but creatable key/index "
        "tail under every container (and, for an empty left document, the "
        "whole path), (4) an unmatchable search - x 8 "
        "right-hand documents covering every root kind (hash, nested hash, "
        "array, Array-of-Hashes, set, int, text) x rotating C05 policy "
        "combinations. Oracle: targets come from the C01 reference "
        "evaluator; each target subtree must satisfy the C05 clauses for "
        "(old subtree, R); a missing path must be created holding R; every "
        "key, value and order outside the targets is unchanged (frame "
        "pattern); an unmatchable path raises MergeException and leaves the "
        "left document untouched. Non-trivial = >= 1 target below the root "
        "whose merge changes it, or several targets, or a created path; "
        "distinct by (L, path, R, policy).")
ASSUMPTIONS = ["per-path rules combined with --mergeat are exercised for "
               "single existing targets only (rule on the merge point itself "
               "and on its child a)",
               "null targets and C05's Unspecified clashes are skipped and "
               "counted"]
EXHAUSTIVE = {"quick": False, "thorough": False}
SHARD_BUDGET_S = {"quick": 100, "thorough": 2400}
HARD_TIMEOUT_S = {"quick": 900, "thorough": 7200}

S = c05.S
RIGHTS = [
    ["M", [["b", S(2)]], None],
    ["M", [["a", ["M", [["c", S(3)]], None]], ["z", S(1)]], None],
    ["L", [S(9)], None],
    ["L", [S(1), S(2)], None],
    ["L", [["M", [["a", S(1)], ["q", S(4)]], None]], None],
    ["T", ["z", "a"], None],
    S(5), S("x"),
]


def seg_paths(doc):
    """(class, segs) merge paths for a loaded left document."""
    out = []
    pos = positions(doc)
    for path, node, parent, ref in pos:
        if parent is None or any(st[0] == "m" for st in path):
            continue
        segs = []
        ok = True
        for st in path:
            if st[0] == "i":
                segs.append(("index", st[1]))
            elif len(st) > 2 and str(st[2]) != "":
                segs.append(("key", str(st[2])))
            else:
                ok = False
        if ok:
            out.append(("existing", segs))
    out.append(("multi", [("all",)]))
    out.append(("multi", [("key", "a"), ("all",)]))
    out.append(("multi", [("traverse",), ("key", "a")]))
    out.append(("multi", [("search", False, "EQUALS", ".", "a")]))
    out.append(("multi", [("all",), ("key", "a")]))
    # Array slices: every element of the slice is a target
    out.append(("multi", [("key", "a"), ("slice", 0, 2)]))
    out.append(("multi", [("slice", 0, 2)]))
    out.append(("multi", [("key", "b"), ("slice", 1, 1)]))
    for path, node, parent, ref in pos:
        if any(st[0] == "m" for st in path):
            continue
        segs = []
        ok = True
        for st in path:
            if st[0] == "i":
                segs.append(("index", st[1]))
            elif len(st) > 2 and str(st[2]) != "":
                segs.append(("key", str(st[2])))
            else:
                ok = False
        if not ok:
            continue
        if is_map(node) and not any(str(k) == "n" for k in node):
            out.append(("missing", segs + [("key", "n")]))
            out.append(("missing", segs + [("key", "n"), ("key", "m")]))
        elif is_seq(node):
            out.append(("missing", segs + [("index", len(node))]))
    out.append(("unmatchable", [("search", False, "EQUALS", ".", "nomatch")]))
    out.append(("unmatchable", [("all",), ("search", False, "EQUALS", "zz",
                                           "1")]))
    return out


def frame(doc, targets, missing=None):
    """Pattern for the whole document: `targets` {poskey: pattern}; missing =
    (container object, key-or-None, pattern) for a created child."""
    def walk(node, parent, ref):
        if parent is not None and medit.poskey(parent, ref) in targets:
            return targets[medit.poskey(parent, ref)]
        if is_map(node):
            items = [[cscalar(k), walk(v, node, k)] for k, v in node.items()]
            if missing and node is missing[0]:
                items.append([cscalar(missing[1]), missing[2]])
            return ("FM", items)
        if is_seq(node):
            items = [walk(v, node, i) for i, v in enumerate(node)]
            if missing and node is missing[0]:
                items.append(missing[2])
            return ("FL", items)
        return ("EXACT", canon(node))
    return walk(doc, None, None)


def tail_pattern(steps, rcanon):
    if not steps:
        return ("EXACT", rcanon)
    kind, ref = steps[0]
    sub = tail_pattern(steps[1:], rcanon)
    if kind == "key":
        return ("FM", [[cscalar(ref), sub]])
    return ("FL", [sub])


def check_case(ltext, klass, segs, rspec, pol, res):
    from yamlpath.merger import Merger, MergerConfig
    from yamlpath.merger.exceptions import MergeException
    ldoc, ok = gdocs.load(ltext)
    rtext = gdocs.emit(rspec)
    rdoc, ok2 = gdocs.load(rtext)
    if klass == "empty-left":
        return _check_empty_left(ltext, segs, rtext, rdoc, pol, res)
    if not (ok and ok2) or ldoc is None:
        return
    ptext = gpaths.render(segs, "/")
    case = {"lhs": ltext, "rhs": rtext, "mergeat": ptext,
            "policy": pol.as_dict(), "class": klass}
    res.evaluations += 1
    rc = canon(rdoc)
    before = canon(ldoc)
    # model: targets and expected pattern
    want = "ok"
    pattern = None
    try:
        if klass == "missing":
            base = mq.evaluate(ldoc, segs[:-1] if segs[-1][1] != "m"
                               else segs[:-2])
            tail = [segs[-1]] if segs[-1][1] != "m" else list(segs[-2:])
            if len(base) != 1:
                res.label("unspecified")
                return
            cont = base[0].v
            sub = tail_pattern(tail[1:], rc)
            pattern = frame(ldoc, {}, (cont, tail[0][1] if is_map(cont)
                                       else None, sub))
            ntargets = 1
        else:
            ctx = mq.Ctx()
            matches = medit.flatten_matches(mq.evaluate(ldoc, segs, ctx))
            if ctx.dead and matches:
                res.label("unspecified")     # creation along a dead branch
                return
            if not matches:
                want = "error" if klass == "unmatchable" else None
                if want is None:
                    res.label("unspecified")   # not matched: creation rules
                    return
            else:
                if any(m.p is None for m in matches):
                    res.label("unspecified")
                    return
                if any(m.v is None for m in matches):
                    res.label("unspecified")   # null targets
                    return
                if any(is_set(m.p) for m in matches):
                    res.label("unspecified")   # Set-member targets
                    return
                mpaths = [m.path for m in matches]
                if any(a != b and b[:len(a)] == a for a in mpaths
                       for b in mpaths):
                    res.label("unspecified")   # a target inside a target
                    return
                tpats = {}
                for m in matches:
                    pat = mm.expected(canon(m.v), rc, pol)
                    tpats[medit.poskey(m.p, m.r)] = pat
                    if anchor_of(m.v) is not None:
                        # an anchored target: its aliases are the same node
                        # and show the same merged content
                        for _, node, parent, ref in positions(ldoc):
                            if node is m.v and parent is not None:
                                tpats[medit.poskey(parent, ref)] = pat
                        res.label("aliased-target")
                pattern = frame(ldoc, tpats)
                ntargets = len(tpats)
    except mm.MergeErr:
        want = "error"
    except (mm.Unspec, Unspecified, mq.ModelError):
        res.label("unspecified")
        return
    args = SimpleNamespace(hashes=pol.hashes, arrays=pol.arrays, aoh=pol.aoh,
                           sets=pol.sets, anchors="stop", mergeat=ptext)
    kw = {}
    if pol.rules:
        # per-path rules are written against the LEFT document: the merge
        # point itself, or a path beneath it
        # ("~sib",) stands for a rule on a SIBLING of the merge point whose
        # key merely starts with the merge point's key (/a -> /aa): it names
        # nothing at or beneath the merge point, so the model never sees it
        kw["rules"] = {(ptext + "a" if rel == ("~sib",) else
                        ptext + "".join("/" + k for k in rel)): v
                       for rel, v in pol.rules.items()
                       if rel != ("~sib",) or ptext[-1:].isalnum()}
        res.label("rules:" + ",".join(sorted(
            "sibling-prefix" if rel == ("~sib",) else
            "target" if not rel else "beneath" for rel in pol.rules)))
    try:
        merger = Merger(gdocs.logger(), ldoc,
                        MergerConfig(gdocs.logger(), args, **kw))
        merger.merge_with(rdoc)
        got = "ok"
    except MergeException:
        got = "error"
    except Exception as exc:
        etype, frame_, src = exc_site(exc)
        res.fail({"clause": "never-a-crash", "exc": etype, "frame": frame_,
                  "at": src[:60]}, case, "%s: %s" % (etype, exc))
        return
    shape = "%s:%s" % (klass, mm.kind(rc))
    if want == "error":
        if got != "error":
            res.fail({"clause": "impossible-or-unmatched-is-an-error",
                      "shape": shape}, case,
                     "merged to %s" % json.dumps(canon(merger.data)))
        elif klass == "unmatchable" and canon(ldoc) != before:
            res.fail({"clause": "unmatched-path-leaves-document-untouched",
                      "shape": shape}, case, json.dumps(canon(ldoc)))
        else:
            res.label("error-as-defined:" + klass)
        return
    if got == "error":
        res.fail({"clause": "unexpected-merge-error", "shape": shape}, case,
                 "a result was defined")
        return
    actual = canon(merger.data)
    why = mm.check(pattern, actual)
    if why:
        outside = "outside the merge point" in why
        res.fail({"clause": "only-under-the-merge-point" if outside
                  else "target-is-the-policy-merge", "shape": shape,
                  "why": c05._why_class(why.split(": ")[-1])
                  if not outside else "frame"}, case,
                 "%s\nbefore %s\nafter  %s" % (why, json.dumps(before),
                                              json.dumps(actual)))
        return
    if actual != before or klass in ("multi", "missing"):
        res.nontrivial()
        if len(res.samples) < 3 and klass != "existing":
            res.samples.append(case)
    res.label("class:" + klass)
    res.label("rhs:" + mm.kind(rc))


ALIASED_LEFTS = [
    ("base: &x\n  - 1\n  - 2\nweb: *x\nother:\n  - 1\n  - 2\n",
     ["/web", "/base", "/other", "/*"]),
    ("base: &x\n  a: 1\nweb: *x\nother:\n  a: 1\n", ["/web", "/base",
                                                      "/*"]),
    ("list:\n  - &x\n    - 1\n  - *x\nk: 1\n", ["/list[1]", "/list[0]"]),
    ("base: &x\n  - a: 1\n    q: 0\nweb: *x\n", ["/web", "/base"]),
    ("top:\n  base: &x\n    - 2\n  web: *x\nweb:\n  - 2\n",
     ["/top/web", "/web"]),
]


def _check_empty_left(ltext, segs, rtext, rdoc, pol, res):
    """An empty left document: the whole path is missing and must be created
    to hold the right-hand document."""
    from yamlpath.merger import Merger, MergerConfig
    from yamlpath.merger.exceptions import MergeException
    ptext = gpaths.render(segs, "/")
    case = {"lhs": ltext, "rhs": rtext, "mergeat": ptext,
            "policy": pol.as_dict(), "class": "empty-left"}
    res.evaluations += 1
    rc = canon(rdoc)
    args = SimpleNamespace(hashes=pol.hashes, arrays=pol.arrays, aoh=pol.aoh,
                           sets=pol.sets, anchors="stop", mergeat=ptext)
    try:
        merger = Merger(gdocs.logger(), None,
                        MergerConfig(gdocs.logger(), args))
        merger.merge_with(rdoc)
    except MergeException as exc:
        res.fail({"clause": "unexpected-merge-error",
                  "shape": "empty-left:" + mm.kind(rc)}, case, str(exc))
        return
    except Exception as exc:
        etype, frame_, src = exc_site(exc)
        res.fail({"clause": "never-a-crash", "exc": etype, "frame": frame_,
                  "at": src[:60]}, case, "%s: %s" % (etype, exc))
        return
    why = mm.check(tail_pattern(list(segs), rc), canon(merger.data))
    if why:
        res.fail({"clause": "missing-path-is-created-to-hold-R",
                  "shape": "empty-left:" + mm.kind(rc)}, case,
                 "%s\nafter %s" % (why, json.dumps(canon(merger.data))))
        return
    res.nontrivial()
    res.label("class:empty-left")
    res.label("rhs:" + mm.kind(rc))


def plan(tier, seed):
    nsh = 48
    shards = [{"kind": "grid", "part": i, "parts": nsh, "offset": seed,
               "stride": 1} for i in range(nsh)]
    for i in range(8):
        shards.append({"kind": "aliased", "part": i, "parts": 8})
    shards.append({"kind": "empty-left"})
    return shards


def run_shard(shard):
    res = Result()
    dl = Deadline(shard.get("budget_s"))
    if shard["kind"] == "aliased":
        from yamlpath import YAMLPath
        from vp.model import pathast
        n = 0
        for ltext, ptexts in ALIASED_LEFTS:
            for ptext in ptexts:
                segs = pathast.from_parsed(YAMLPath(ptext).escaped)
                for rspec in RIGHTS:
                    for j in range(len(c05.ALL_POLICIES)):
                        n += 1
                        if n % shard["parts"] != shard["part"]:
                            continue
                        check_case(ltext, "multi" if ptext == "/*"
                                   else "existing", segs, rspec,
                                   c05.policy_for(j, with_rules=False), res)
        return res
    if shard["kind"] == "empty-left":
        paths_ = [[("key", "n")], [("key", "n"), ("key", "m")],
                  [("key", "a"), ("key", "b"), ("key", "c")],
                  [("index", 0)], [("key", "n"), ("index", 0)]]
        for ltext in ("", "# nothing here\n", "---\n"):
            for segs in paths_:
                for rspec in RIGHTS:
                    for j in (0, 7, 45, 101, 179):
                        check_case(ltext, "empty-left", segs, rspec,
                                   c05.policy_for(j, with_rules=False), res)
        return res
    fam, base = c05.corpus()
    specs = fam + base
    n = 0
    for di in range(shard["part"], len(specs), shard["parts"]):
        if dl.expired():
            res.truncated = True
            break
        ltext = gdocs.emit(specs[di])
        ldoc, ok = gdocs.load(ltext)
        if not ok or ldoc is None or not is_container(ldoc):
            continue
        for klass, segs in seg_paths(ldoc):
            for ri, rspec in enumerate(RIGHTS):
                n += 1
                if (n + shard["offset"]) % shard["stride"]:
                    continue
                pol = c05.policy_for(n * 13 + ri, with_rules=False)
                check_case(ltext, klass, [tuple(s) for s in segs], rspec, pol,
                           res)
                if klass == "existing" and (n + shard["offset"]) % 3 == 0:
                    # the same merge with a per-path rule naming the merge
                    # point (or its child a) that overrides the option
                    k = (n // 3) % 5
                    rpol = c05.policy_for(n * 13 + ri, with_rules=False)
                    rpol.rules = [{(): "left"}, {(): "right"},
                                  {("a",): "left"},
                                  {(): "right", ("a",): "left"},
                                  {("~sib",): "left"}][k]
                    check_case(ltext, klass, [tuple(s) for s in segs], rspec,
                               rpol, res)
    return res


def replay(case):
    res = Result()
    from yamlpath import YAMLPath
    from vp.model import pathast
    p = case["policy"]
    pol = mm.Policy(p["hashes"], p["arrays"], p["aoh"], p["sets"])
    pol.rules = {tuple(x for x in k.split("/") if x): v
                 for k, v in p.get("rules", {}).items()}
    segs = pathast.from_parsed(YAMLPath(case["mergeat"]).escaped)
    rdoc, _ = gdocs.load(case["rhs"])
    rspec = _spec_of(rdoc)
    check_case(case["lhs"], case["class"], segs, rspec, pol, res)
    return [r for _, recs in res.failures.values() for r in recs]


def _spec_of(node):
    if is_map(node):
        return ["M", [[k if isinstance(k, str) else int(k), _spec_of(v)]
                      for k, v in node.items()], None]
    if is_seq(node):
        return ["L", [_spec_of(v) for v in node], None]
    if is_set(node):
        return ["T", [m for m in node], None]
    c = cscalar(node)
    return ["S", c[1] if len(c) > 1 else None, None]
