"""C10 - anchor conflicts in a merge follow the chosen policy and the result
reloads."""
import itertools
import json
from types import SimpleNamespace

from vp.runner import Result, Deadline, exc_site
from vp.gen import docs as gdocs
from vp.model.plain import canon, cscalar, anchor_of, positions, is_seq

ID = "C10"
LEVEL = "exploration"
NAMES = ["x", "y", "x_1"]
VALUES = [1, 2, "", False, "s", 2.5, True, 2.0]      # true == 1, 2.0 == 2
POLICIES = ["stop", "left", "right", "rename"]
RULE = ("E1: left documents {a: &N v, [b: *N], [c: [*N, 7]], [l2: &N2 5, "
        "l3: *N2]} and right documents {d: &M w, [e: *M], [f: [9, *M]], "
        "[r2: &M2 6, r3: *M2]} for every N, M in {x, y, x_1}, v, w in "
        "{1, 2, '', false, 's', 2.5, true, 2.0} (falsy values keep their anchor; "
        "true/1 and 2/2.0 are equal only to Python), "
        "every alias placement, optional second anchors from the same pool "
        "(so rename targets can collide), each side optionally wrapped whole "
        "in an anchored hash that is aliased once more (so every scalar "
        "anchor sits inside an anchored collection) x the four anchor policies x 3 "
        "merge-policy mixes (quick: seed-offset stride). Oracle (alias-cell "
        "model): stop refuses iff a shared name has unequal values; left / "
        "right make every position that aliased the name read that side's "
        "value; rename keeps both values and gives the right-hand definition "
        "and all its aliases one new name unused in either input; equal "
        "values never conflict; the result dumps (Merger.prepare_for_dump) "
        "and strictly reloads to the same data with no duplicate or "
        "undefined anchor. Non-trivial = an equal-name/different-value pair "
        "with >= 1 alias on each side; distinct by (L, R, policy).")
ASSUMPTIONS = ["left and right documents use disjoint keys so that the hash "
               "merge itself is a plain union (C05 covers key collisions)"]
EXHAUSTIVE = {"quick": False, "thorough": True}
SHARD_BUDGET_S = {"quick": 100, "thorough": 2400}
HARD_TIMEOUT_S = {"quick": 900, "thorough": 7200}


def S(v, a=None):
    return ["S", v, a]


def left_doc(name, value, al_key, al_seq, extra):
    items = [["a", S(value, name)]]
    if al_key:
        items.append(["b", ["A", name]])
    if al_seq:
        items.append(["c", ["L", [["A", name], S(7)], None]])
    if extra:
        items.append(["l2", S(5, extra)])
        items.append(["l3", ["A", extra]])
    return ["M", items, None]


def right_doc(name, value, al_key, al_seq, extra):
    items = [["d", S(value, name)]]
    if al_key:
        items.append(["e", ["A", name]])
    if al_seq:
        items.append(["f", ["L", [S(9), ["A", name]], None]])
    if extra:
        items.append(["r2", S(6, extra)])
        items.append(["r3", ["A", extra]])
    return ["M", items, None]


def wrapped(spec, key, anchor, arr=False):
    """{key: &anchor {...the document...}, key2: *anchor}: every scalar
    anchor of the document now sits inside an anchored, aliased hash.
    arr: the anchored hash is an Array element, aliased from another Array:
    {key: [&anchor {...}], key2: [*anchor]}."""
    if arr:
        return ["M", [[key, ["L", [["M", spec[1], anchor]], None]],
                      [key + "2", ["L", [["A", anchor]], None]]], None]
    return ["M", [[key, ["M", spec[1], anchor]], [key + "2", ["A", anchor]]],
            None]


def all_cases():
    for ln, rn in itertools.product(NAMES, NAMES):
        for lv, rv in itertools.product(VALUES, VALUES):
            for lf, rf in itertools.product(range(4), range(4)):
                for lx in [None] + [n for n in NAMES if n != ln]:
                    for rx in [None] + [n for n in NAMES if n != rn]:
                        yield (ln, lv, lf, lx, rn, rv, rf, rx, 0)
                        if (lx is None or lx == NAMES[0]) and \
                                (rx is None or rx == NAMES[-1]):
                            # 1: left wrapped, 2: right wrapped, 3: both
                            for wrap in (1, 2, 3):
                                yield (ln, lv, lf, lx, rn, rv, rf, rx, wrap)
                            if lx is None and rx is None:
                                # the same with Array-element wrappers
                                for wrap in (5, 6, 7):
                                    yield (ln, lv, lf, lx, rn, rv, rf, rx,
                                           wrap)


def read_positions(doc):
    """{key or (key, idx): (value canon, anchor name, object id)}"""
    out = {}
    for k, v in doc.items():
        if str(k) in ("lw", "rw"):
            if is_seq(v):                       # [&wrap {...}]
                v = v[0] if len(v) == 1 else {}
            out.update(read_positions(v))       # the wrapping hash
        elif str(k) in ("lw2", "rw2"):
            out["@" + str(k)] = (["alias-of-wrapper", canon(v) == canon(
                doc[str(k)[:-1]]) if str(k)[:-1] in doc else False], None,
                id(v))
        elif is_seq(v):
            for i, e in enumerate(v):
                out[(str(k), i)] = (cscalar(e), anchor_of(e), id(e))
        else:
            out[str(k)] = (cscalar(v), anchor_of(v), id(v))
    return out


def check_case(case_t, policy, mix, res):
    from yamlpath.merger import Merger, MergerConfig
    from yamlpath.merger.exceptions import MergeException
    from yamlpath.common import Parsers
    ln, lv, lf, lx, rn, rv, rf, rx, wrap = case_t
    lspec = left_doc(ln, lv, lf & 1, lf & 2, lx)
    rspec = right_doc(rn, rv, rf & 1, rf & 2, rx)
    if wrap & 1:
        lspec = wrapped(lspec, "lw", "lwrap", bool(wrap & 4))
    if wrap & 2:
        rspec = wrapped(rspec, "rw", "rwrap", bool(wrap & 4))
    ltext = gdocs.emit(lspec)
    rtext = gdocs.emit(rspec)
    ldoc, ok1 = gdocs.load(ltext)
    rdoc, ok2 = gdocs.load(rtext)
    if not (ok1 and ok2):
        raise RuntimeError("generated documents do not load:\n%s\n%s"
                           % (ltext, rtext))
    case = {"lhs": ltext, "rhs": rtext, "anchors": policy, "mix": mix}
    res.evaluations += 1
    # which names collide, and with what values
    ldefs = {ln: lv}
    rdefs = {rn: rv}
    if lx:
        ldefs[lx] = 5
    if rx:
        rdefs[rx] = 6
    shared = [n for n in rdefs if n in ldefs]
    conflicts = [n for n in shared
                 if cscalar(ldefs[n]) != cscalar(rdefs[n])]
    h, a, o, s = mix
    args = SimpleNamespace(hashes=h, arrays=a, aoh=o, sets=s, anchors=policy)
    try:
        merger = Merger(gdocs.logger(), ldoc,
                        MergerConfig(gdocs.logger(), args))
        merger.merge_with(rdoc)
        outcome = "ok"
    except MergeException:
        outcome = "refused"
    except Exception as exc:
        etype, frame, src = exc_site(exc)
        res.fail({"clause": "no-crash", "exc": etype, "frame": frame}, case,
                 "%s: %s" % (etype, exc))
        return
    kind = "conflict" if conflicts else ("shared-equal" if shared
                                         else "disjoint")
    if policy == "stop" and conflicts:
        if outcome != "refused":
            res.fail({"clause": "stop-refuses-a-conflict", "falsy-left":
                      str(any(not ldefs[n] for n in conflicts)),
                      "wrapped": wrap}, case,
                     "merged although %r differ" % conflicts)
        res.label("stop:refused")
        _nontrivial(res, case, case_t, conflicts)
        return
    if outcome == "refused":
        res.fail({"clause": "no-conflict-is-accepted", "kind": kind,
                  "policy": policy}, case, "refused without a conflict")
        return
    if h != "deep":
        # under hashes=left/right the root hash is not combined; only the
        # acceptance and the reload clause apply
        _check_reload(merger, case, res, policy, kind)
        return
    got = read_positions(merger.data)
    # expected value at every position
    exp = {}

    def put(side, defs, name, key, alias_key, alias_seq, seq_first):
        val = defs[name]
        other = ldefs if side == "R" else rdefs
        if name in conflicts:
            if policy == "left":
                val = ldefs[name]
            elif policy == "right":
                val = rdefs[name]
        exp[key] = val
        return val

    # left side
    lval = ldefs[ln]
    if ln in conflicts and policy == "right":
        lval = rdefs[ln]
    exp["a"] = lval
    if lf & 1:
        exp["b"] = lval
    if lf & 2:
        exp[("c", 0)] = lval
        exp[("c", 1)] = 7
    if lx:
        v = rdefs[lx] if (lx in conflicts and policy == "right") else 5
        exp["l2"] = v
        exp["l3"] = v
    rval = rdefs[rn]
    if rn in conflicts and policy == "left":
        rval = ldefs[rn]
    exp["d"] = rval
    if rf & 1:
        exp["e"] = rval
    if rf & 2:
        exp[("f", 0)] = 9
        exp[("f", 1)] = rval
    if rx:
        v = ldefs[rx] if (rx in conflicts and policy == "left") else 6
        exp["r2"] = v
        exp["r3"] = v
    for wkey, bit in (("@lw2", 1), ("@rw2", 2)):
        if wrap & bit:
            # the alias of the wrapping hash still shows the wrapper's content
            exp[wkey] = None
    bad = []
    for key, val in exp.items():
        if isinstance(key, str) and key.startswith("@"):
            if key not in got:
                bad.append("%r missing" % (key,))
            elif got[key][0] != ["alias-of-wrapper", True]:
                bad.append("%s no longer equals the hash it aliases"
                           % key[1:])
            continue
        if key not in got:
            bad.append("%r missing" % (key,))
        elif got[key][0] != cscalar(val):
            bad.append("%r reads %r, expected %r" % (key, got[key][0], val))
    if set(got) - set(exp):
        bad.append("unexpected positions %r" % sorted(
            map(str, set(got) - set(exp))))
    if bad:
        res.fail({"clause": "aliases-read-the-policy-value", "policy": policy,
                  "kind": kind, "wrapped": wrap}, case, "; ".join(bad))
        return
    # rename: the right-hand definition and all its aliases carry ONE new
    # name that is unused in either input
    if policy == "rename":
        used = set(ldefs) | set(rdefs)
        for name in conflicts:
            rkeys = (["d"] + (["e"] if rf & 1 else [])
                     + ([("f", 1)] if rf & 2 else [])) if name == rn else \
                ["r2", "r3"]
            names = {got[k][1] for k in rkeys}
            ids = {got[k][2] for k in rkeys}
            if len(names) != 1 or None in names:
                bad.append("right-hand uses of %s carry names %r"
                           % (name, names))
            elif list(names)[0] in used:
                bad.append("renamed %s to %r which is already in use"
                           % (name, list(names)[0]))
            if len(ids) != 1:
                bad.append("right-hand aliases of %s no longer share one "
                           "object" % name)
            lkeys = (["a"] + (["b"] if lf & 1 else [])
                     + ([("c", 0)] if lf & 2 else [])) if name == ln else \
                ["l2", "l3"]
            if {got[k][1] for k in lkeys} != {name}:
                bad.append("left-hand uses of %s carry %r" % (
                    name, {got[k][1] for k in lkeys}))
        if bad:
            res.fail({"clause": "rename-is-consistent-and-unique"}, case,
                     "; ".join(bad))
            return
    _check_reload(merger, case, res, policy, kind)
    _nontrivial(res, case, case_t, conflicts)
    res.label("%s:%s" % (policy, kind))


def _nontrivial(res, case, case_t, conflicts):
    ln, lv, lf, lx, rn, rv, rf, rx, wrap = case_t
    if wrap:
        res.label("wrapped-in-anchored-hash")
    if conflicts and ((ln in conflicts and lf and rf) or lx in conflicts
                      or rx in conflicts):
        res.nontrivial()
        if len(res.samples) < 3:
            res.samples.append(case)


def _check_reload(merger, case, res, policy, kind):
    import io
    from yamlpath.common import Parsers
    want = canon(merger.data)
    try:
        yaml = Parsers.get_yaml_editor()
        args_fmt = merger.prepare_for_dump(yaml, "out.yaml")
        buf = io.StringIO()
        yaml.dump(merger.data, buf)
        text = buf.getvalue()
        again, ok = gdocs.load(text)
    except Exception as exc:
        res.fail({"clause": "result-dumps-and-reloads",
                  "why": type(exc).__name__, "policy": policy}, case,
                 "%s" % exc)
        return
    if not ok:
        res.fail({"clause": "result-dumps-and-reloads",
                  "why": "strict-loader-rejects", "policy": policy,
                  "kind": kind}, case, "dumped:\n%s" % text)
        return
    if canon(again) != want:
        res.fail({"clause": "result-dumps-and-reloads",
                  "why": "different-data", "policy": policy, "kind": kind},
                 case, "dumped:\n%s\nwant %s\ngot  %s" % (
                     text, json.dumps(want), json.dumps(canon(again))))


MIXES = [("deep", "all", "all", "unique"), ("deep", "unique", "deep", "left"),
         ("right", "left", "unique", "right")]


def plan(tier, seed):
    nsh = 32
    return [{"kind": "enum", "part": i, "parts": nsh, "offset": seed,
             "stride": 5 if tier == "quick" else 1} for i in range(nsh)]


def run_shard(shard):
    res = Result()
    dl = Deadline(shard.get("budget_s"))
    for n, case_t in enumerate(all_cases()):
        if n % shard["parts"] != shard["part"]:
            continue
        if (n // shard["parts"] + shard["offset"]) % shard["stride"]:
            continue
        if dl.expired():
            res.truncated = True
            break
        for pi, policy in enumerate(POLICIES):
            check_case(case_t, policy, MIXES[(n + pi) % len(MIXES)], res)
    return res


def replay(case):
    res = Result()
    # recover the generating tuple from the documents
    import re
    l, r = case["lhs"], case["rhs"]

    def parse(text, defkey, k1, k2, x2):
        doc, _ = gdocs.load(text)
        for wk in ("lw", "rw"):
            if wk in doc:
                doc = doc[wk]
        name = anchor_of(doc[defkey])
        val = doc[defkey]
        val = (bool(val) if cscalar(val)[0] == "b" else
               cscalar(val)[1] if len(cscalar(val)) > 1 else None)
        flags = (1 if k1 in doc else 0) | (2 if k2 in doc else 0)
        extra = anchor_of(doc[x2]) if x2 in doc else None
        return name, val, flags, extra
    ln, lv, lf, lx = parse(l, "a", "b", "c", "l2")
    rn, rv, rf, rx = parse(r, "d", "e", "f", "r2")
    wrap = (1 if "lw:" in l else 0) | (2 if "rw:" in r else 0)
    check_case((ln, lv, lf, lx, rn, rv, rf, rx, wrap), case["anchors"],
               tuple(case["mix"]), res)
    return [r_ for _, recs in res.failures.values() for r_ in recs]
