"""C01 - query results equal the documented YAML Path segment semantics.

Differential against vp/model/query.py (three-valued) + metamorphic relations
(dot == slash, exists == required non-empty, optional == required on live
paths).
"""
import json

from vp.runner import Result, Deadline, exc_site
from vp.gen import docs as gdocs, paths as gpaths
from vp.model import query as mq
from vp.model.compare import Unspecified
from vp.model.plain import canon, is_set
from vp import real

ID = "C01"
LEVEL = "exploration"
RULE = ("E1: every document with <= n nodes over keys {a,b,1}, scalars "
        "{null,true,1,2,1.5,'a','1',''}, set members {a,b} x every path of "
        "<= k segments from a %d-item vocabulary (keys, indexes incl. "
        "negative, slices, wildcard, traversal, 16 searches covering all 9 "
        "operators, inversion, '.' and named attributes); quick: (n<=3,k<=2) "
        "complete, (n=4,k<=2) and (n<=3,k=3) by seed-offset stride; E2: "
        "Hypothesis documents up to ~30 nodes with anchors and paths derived "
        "from the document. Each pair: model answer vs required query in dot "
        "and slash notation, exists(), and the optional query when the path "
        "is live. Non-trivial = the model selects >= 1 node and the path "
        "contains a search, wildcard, traversal, slice, anchor, negative "
        "index or list pass-through step; distinct by (document, path)."
        % len(gpaths.VOCAB))
ASSUMPTIONS = [
    "documentation-silent corners are Unspecified in vp/model (counted as "
    "label 'unspecified', not decided)",
    "crashes (non-YAMLPath exceptions) are left to C15 and only labelled",
]
EXHAUSTIVE = {"quick": False, "thorough": False}
SHARD_BUDGET_S = {"quick": 100, "thorough": 2400}
HARD_TIMEOUT_S = {"quick": 900, "thorough": 7200}

_PATHS = {}


def _paths(k):
    """[(segs, dot YAMLPath, slash YAMLPath, kinds, interesting)]"""
    if k not in _PATHS:
        out = []
        for segs in gpaths.enum_paths_exact(k):
            out.append(_prep(segs))
        _PATHS[k] = out
    return _PATHS[k]


def _prep(segs):
    segs = [tuple(s) for s in segs]
    dot = gpaths.render(segs, ".")
    slash = gpaths.render(segs, "/")
    interesting = any(
        s[0] in ("search", "all", "traverse", "slice", "anchor")
        or (s[0] == "index" and s[1] < 0) for s in segs)
    return (segs, dot, slash, gpaths.kinds(segs), interesting)


def _same(exp, got):
    """Pairwise comparison of model nodes and real NodeCoords."""
    if len(exp) != len(got):
        return False
    for e, g in zip(exp, got):
        ei = e.ident()
        if ei[0] == "member":
            if is_set(g.parent):
                if real.nc_ident(g) != ei:
                    return False
            elif canon(g.node) != canon(e.v):
                return False
        elif real.nc_ident(g) != ei:
            return False
    return True


def _classify(exp, got):
    ei = [e.ident() if e.ident()[0] != "member" else ("member", repr(e.v))
          for e in exp]
    gi = []
    for g in got:
        i = real.nc_ident(g)
        if isinstance(i[0], str) and i[0] not in ("virt", "root"):
            i = ("member", repr(g.node))
        elif not is_set(g.parent) and any(x[0] == "member" for x in ei) and \
                ("member", repr(g.node)) in ei:
            i = ("member", repr(g.node))
        gi.append(i)
    if set(gi) == set(ei):
        return "duplicate-results" if len(gi) > len(ei) else "order"
    if set(gi) > set(ei):
        return "extra-result"
    if set(gi) < set(ei):
        return "missing-result"
    return "different-results"


def check_pair(doc, text, prepared, res, opts):
    """One (document, path) pair through every clause.  Returns True when
    the document must be reloaded (it was modified)."""
    segs, dot, slash, kinds, interesting = prepared
    res.evaluations += 1
    ctx = mq.Ctx()
    try:
        exp = mq.evaluate(doc, segs, ctx)
        outcome = "ok"
    except Unspecified:
        res.label("unspecified")
        return False
    except mq.ModelError:
        exp = None
        outcome = "error"
    from yamlpath.exceptions import YAMLPathException
    proc = real.processor(doc)
    case = {"doc": text, "path": gpaths.to_json(segs)}
    try:
        got = real.run_required(proc, real.ypath(dot))
    except Exception as exc:          # C15's domain
        etype, frame, _ = exc_site(exc)
        res.label("crash:%s@%s" % (etype, frame))
        return False
    if outcome == "error":
        if got[0] != "ype":
            res.fail({"clause": "expected-yamlpath-error", "segs": kinds},
                     case, "model: YAMLPathException; real: %s" % (got[0],))
        return False
    if got[0] == "ype":
        res.fail({"clause": "unexpected-yamlpath-error", "segs": kinds}, case,
                 "model selects %d node(s); real raised %s"
                 % (len(exp), got[1]))
        return False
    got_list = got[1] if got[0] == "ok" else []
    if not _same(exp, got_list):
        res.fail({"clause": _classify(exp, got_list), "segs": kinds}, case,
                 "dot=%s expected=%r got=%r" % (
                     dot, [repr(e.v) for e in exp],
                     [repr(g.node) for g in got_list]))
        return False
    if (got[0] == "unmatched") != (len(exp) == 0):
        res.fail({"clause": "unmatched-iff-empty", "segs": kinds}, case, dot)
    if exp and interesting:
        res.nontrivial()
        if len(res.samples) < 3:
            res.samples.append({"doc": text, "dot": dot, "slash": slash,
                                "selected": [repr(e.v) for e in exp]})
    res.label("segs:" + kinds.split("-")[0])
    if len(exp) >= 2:
        res.label("multi-result")
    # slash notation must give the identical answer
    try:
        got2 = real.run_required(proc, real.ypath(slash))
    except Exception as exc:
        etype, frame, _ = exc_site(exc)
        res.label("crash:%s@%s" % (etype, frame))
        return False
    l2 = got2[1] if got2[0] == "ok" else []
    if got2[0] == "ype" or not _same(exp, l2):
        res.fail({"clause": "dot-vs-slash", "segs": kinds}, case,
                 "dot=%s slash=%s slash result=%r" % (
                     dot, slash, [repr(g.node) for g in l2] if
                     got2[0] != "ype" else got2[1]))
    # exists()
    if opts.get("exists"):
        try:
            ex = proc.exists(real.ypath(dot))
        except YAMLPathException:
            ex = None
        if ex != (len(exp) > 0):
            res.fail({"clause": "exists", "segs": kinds}, case,
                     "exists=%r but %d expected" % (ex, len(exp)))
    # optional query on a path that already exists (all branches live)
    if exp and not ctx.dead:
        before = json.dumps(canon(doc))
        try:
            got3 = real.run_optional(proc, real.ypath(dot))
        except Exception as exc:
            etype, frame, _ = exc_site(exc)
            res.label("crash-optional:%s@%s" % (etype, frame))
            return json.dumps(canon(doc)) != before
        l3 = got3[1] if got3[0] == "ok" else None
        if l3 is None or not _same(exp, l3):
            shape = "null-relayed-midpath" if ctx.null_midpath else "other"
            res.fail({"clause": "optional-vs-required", "segs": kinds,
                      "shape": shape}, case,
                     "dot=%s required=%r optional=%r" % (
                         dot, [repr(e.v) for e in exp],
                         [repr(g.node) for g in l3] if l3 is not None
                         else got3[1]))
        res.label("optional-checked")
        if json.dumps(canon(doc)) != before:
            res.label("optional-mutated-doc(see C09)")
            return True
    return False


# -- planning ----------------------------------------------------------------
def plan(tier, seed):
    shards = []
    nsh = 32

    def grid(n_lo, n_hi, k, stride, tag, keyvar=None, parts=nsh):
        for i in range(parts):
            shards.append({"kind": "grid:" + tag, "n_lo": n_lo, "n_hi": n_hi,
                           "k": k, "stride": stride, "offset": seed,
                           "part": i, "parts": parts, "keyvar": keyvar})
    if tier == "quick":
        grid(1, 3, 1, 1, "n3k1")
        grid(1, 3, 2, 1, "n3k2")
        grid(4, 4, 1, 1, "n4k1")
        grid(4, 4, 2, 12, "n4k2")
        grid(1, 3, 3, 24, "n3k3")
        for kv in range(len(gdocs.KEY_VARIANTS)):
            grid(1, 4, 1, 1, "kv%d-n4k1" % kv, keyvar=kv, parts=1)
            grid(1, 3, 2, 1, "kv%d-n3k2" % kv, keyvar=kv, parts=4)
        nh, per = 16, 250
    else:
        grid(1, 4, 1, 1, "n4k1")
        grid(1, 4, 2, 1, "n4k2")
        grid(1, 3, 3, 1, "n3k3")
        grid(5, 5, 1, 1, "n5k1")
        grid(5, 5, 2, 8, "n5k2")
        for kv in range(len(gdocs.KEY_VARIANTS)):
            grid(1, 5, 1, 1, "kv%d-n5k1" % kv, keyvar=kv, parts=2)
            grid(1, 4, 2, 1, "kv%d-n4k2" % kv, keyvar=kv, parts=8)
            grid(1, 3, 3, 1, "kv%d-n3k3" % kv, keyvar=kv, parts=8)
        nh, per = 64, 1500
    for i in range(nh):
        shards.append({"kind": "hyp", "seed": seed * 1000 + i,
                       "examples": per})
    return shards


def run_shard(shard):
    res = Result()
    dl = Deadline(shard.get("budget_s"))
    if shard["kind"].startswith("grid"):
        _run_grid(shard, res, dl)
    else:
        _run_hyp(shard, res, dl)
    return res


def _run_grid(shard, res, dl):
    specs = []
    for n in range(shard["n_lo"], shard["n_hi"] + 1):
        specs.extend(gdocs.specs_exact(n))
    paths = _paths(shard["k"])
    if shard.get("keyvar") is not None:
        # the same grid moved onto another key: only documents holding the
        # replaced key and paths naming it
        _, pairs, textmap = gdocs.KEY_VARIANTS[shard["keyvar"]]
        specs = [gdocs.remap_keys(s, pairs) for s in specs
                 if any(gdocs.has_key(s, old) for old, _ in pairs)]
        paths = [_prep([("key", textmap[s[1]]) if s[0] == "key" and
                        s[1] in textmap else s for s in prepared[0]])
                 for prepared in paths
                 if any(s[0] == "key" and s[1] in textmap
                        for s in prepared[0])]
        res.label("keyvar:" + gdocs.KEY_VARIANTS[shard["keyvar"]][0])
    stride, offset = shard["stride"], shard["offset"]
    part, parts = shard["part"], shard["parts"]
    counter = 0
    for di in range(part, len(specs), parts):
        if dl.expired():
            res.truncated = True
            return
        text = gdocs.emit(specs[di])
        doc, ok = gdocs.load(text)
        if not ok:
            raise RuntimeError("generated document does not load: %r" % text)
        if doc is None:
            continue
        for pi, prepared in enumerate(paths):
            counter += 1
            if stride > 1 and (di * 7919 + pi + offset) % stride:
                continue
            if check_pair(doc, text, prepared, res,
                          {"exists": (di + pi) % 4 == 0}):
                doc, _ = gdocs.load(text)


def _run_hyp(shard, res, dl):
    from hypothesis import strategies as st
    from vp.hyp import run_given

    @st.composite
    def doc_and_paths(draw):
        spec = draw(gdocs.st_spec(max_leaves=10, with_anchors=True))
        text = gdocs.emit(spec)
        doc, ok = gdocs.load(text)
        if not ok or doc is None:
            return (text, None, [])
        plist = draw(st.lists(gpaths.st_path_for(doc), min_size=1,
                              max_size=6))
        return (text, doc, plist)

    def body(value):
        text, doc, plist = value
        if doc is None:
            res.label("hyp:unloadable")
            return
        for segs in plist:
            prepared = _prep(segs)
            before = res.nt_count
            reload_needed = check_pair(doc, text, prepared, res,
                                       {"exists": True})
            if res.nt_count > before:
                res.nt_count = before
                res.nontrivial(key=[text, prepared[1]], sample=False)
            res.label("hyp:len%d" % min(len(segs), 6))
            if reload_needed:
                doc, _ = gdocs.load(text)

    run_given(doc_and_paths(), body, shard["seed"], shard["examples"], dl)
    if dl.expired():
        res.truncated = True


def replay(case):
    res = Result()
    doc, ok = gdocs.load(case["doc"])
    if not ok:
        raise RuntimeError("replay document does not load")
    check_pair(doc, case["doc"], _prep(gpaths.from_json(case["path"])), res,
               {"exists": True})
    return [r for _, recs in res.failures.values() for r in recs]
