"""C16 - the command-line tools deliver the library's answers and honest exit
codes; file and stdin delivery give the same outcome."""
import io
import json
import os
import re
import shutil
import subprocess
import tempfile
from types import SimpleNamespace

from vp.runner import Result, Deadline, exc_site, time_limit, CaseTimeout
from vp.gen import docs as gdocs, paths as gpaths
from vp.model import query as mq
from vp.model.compare import Unspecified
from vp.model.plain import (canon, cscalar, positions, is_map, is_seq, is_set,
                            is_container)
from vp.tools import cli_inproc
from vp import real

ID = "C16"
LEVEL = "exploration"
RULE = ("Generated cases per tool, pushed through the real console entry "
        "points in-process (argument parsing, validation, I/O, formatting; "
        "a 1-in-60 sample also through the installed /venv/bin scripts as "
        "subprocesses): yaml-get - documents <= 3 nodes x C01 vocabulary "
        "paths, file / '-' / implicit stdin, both --pathsep; yaml-set - "
        "every scalar leaf x values / --null / --delete / --mustexist / "
        "--format, file and stdin; yaml-merge - document pairs x policy "
        "flags x -D yaml|json, stdout and --output; yaml-diff - document "
        "pairs x -a/-o modes; yaml-validate - 1..3 files mixing valid, "
        "invalid and multi-document streams; yaml-paths - documents x "
        "expressions x switches; multi-document streams (1-3 documents from a "
        "6-document pool) - yaml-diff with -L/-R alone, together, missing "
        "and out of range (file and stdin), yaml-paths printing "
        "file/document-index decorated results for every document. "
        "Oracle: differential against the library "
        "calls the other properties decide (query results, set/delete on a "
        "fresh copy, Merger, Differ report, strict loader, "
        "search_for_paths) plus exit-status rules; an uncaught exception is "
        "a violation for any input. Non-trivial = the exit status or output "
        "differs from the trivial no-match / no-change case; distinct by "
        "(tool, argv, inputs).")
ASSUMPTIONS = ["the bulk of the calls runs main() in-process with patched "
               "argv/stdio; a sample goes through real subprocesses"]
EXHAUSTIVE = {"quick": False, "thorough": False}
SHARD_BUDGET_S = {"quick": 110, "thorough": 2400}
HARD_TIMEOUT_S = {"quick": 900, "thorough": 7200}

SCAL = [None, 1, 2, 1.5, "a", "1", ""]


def run(tool, argv, stdin_text=None):
    with time_limit(30):
        return cli_inproc.run(tool, argv, stdin_text)


def crashed(out, res, case, tool):
    if out.exc is not None:
        etype, frame, src = exc_site(out.exc)
        res.fail({"clause": "no-uncaught-exception", "tool": tool,
                  "exc": etype, "frame": frame}, case,
                 "%s: %s" % (etype, out.exc))
        return True
    return False


# -- yaml-get ----------------------------------------------------------------
def expect_get_lines(nodes):
    lines = []
    for n in nodes:
        n = getattr(n, "node", n)
        lines.append(n)
    return lines


def same_get_output(stdout, nodes):
    lines = stdout.split("\n")
    if lines and lines[-1] == "":
        lines.pop()
    flat = []
    for n in nodes:
        if type(n) is list:          # collector / slice results
            flat.append(("json", [getattr(x, "node", x) for x in n]))
        elif is_container(n):
            flat.append(("json", n))
        elif n is None:
            flat.append(("text", "\x00"))
        else:
            flat.append(("text", str(n).replace("\n", "\\n")))
    if len(lines) != len(flat):
        return "expected %d line(s), got %d" % (len(flat), len(lines))
    for line, (kind, val) in zip(lines, flat):
        if kind == "text":
            if line != val:
                return "line %r, expected %r" % (line, val)
        else:
            try:
                parsed = json.loads(line)
            except ValueError:
                return "container not printed as JSON: %r" % line
            if _plain(parsed) != _plain(val):
                return "JSON %r does not equal %r" % (parsed, val)
    return None


def _plain(n):
    n = getattr(n, "node", n)
    if is_map(n):
        return {str(k): _plain(v) for k, v in n.items()}
    if is_seq(n) or type(n) is list:
        return [_plain(v) for v in n]
    if is_set(n):
        return {str(k): None for k in n} if not isinstance(n, dict) else n
    if isinstance(n, bool):
        return bool(n)
    if isinstance(n, int):
        return int(n)
    if isinstance(n, float):
        return float(n)
    if n is None:
        return None
    return str(n)


def get_cases(text, tmp, res, dl, stride, offset):
    doc, ok = gdocs.load(text)
    if not ok or doc is None:
        return
    fname = os.path.join(tmp, "get.yaml")
    with open(fname, "w") as fh:
        fh.write(text)
    from yamlpath.exceptions import YAMLPathException
    n = 0
    picked = 0
    for segs in _vocab():
        n += 1
        if (n + offset) % stride:
            continue
        for sep in (".", "/"):
            ptext = gpaths.render(segs, sep)
            proc = real.processor(doc)
            try:
                want = [getattr(x, "node", x) for x in
                        proc.get_nodes(real.ypath(ptext), mustexist=True)]
                want_code = 0
            except YAMLPathException:
                want, want_code = [], 1
            except Exception:
                continue            # library crash: C15's domain
            variants = [("file", ["-p", ptext, fname], None),
                        ("dash", ["-p", ptext, "-"], text),
                        ("implicit", ["-p", ptext], text)]
            outs = []
            picked += 1
            for how, argv, sin in variants[:1 + (picked % 3 == 0) * 2]:
                res.evaluations += 1
                case = {"tool": "yaml-get", "argv": argv[:2], "doc": text,
                        "delivery": how}
                try:
                    out = run("yaml-get", argv, sin)
                except CaseTimeout:
                    res.fail({"clause": "terminates", "tool": "yaml-get"},
                             case, "30 s")
                    continue
                if crashed(out, res, case, "yaml-get"):
                    continue
                outs.append((how, out))
                if out.code != want_code:
                    res.fail({"clause": "exit-status", "tool": "yaml-get",
                              "want": want_code}, case,
                             "exit %r, %d match(es); stderr %r" % (
                                 out.code, len(want), out.err[:200]))
                    continue
                if want_code == 0:
                    why = same_get_output(out.out, want)
                    if why:
                        res.fail({"clause": "one-line-per-match",
                                  "tool": "yaml-get"}, case, why)
                        continue
                    res.nontrivial(key=["get", text, ptext, how],
                                   sample=False)
                res.label("yaml-get:" + how)
            if len({(o.code, o.out) for _h, o in outs}) > 1:
                res.fail({"clause": "file-and-stdin-agree",
                          "tool": "yaml-get"},
                         {"tool": "yaml-get", "argv": ["-p", ptext],
                          "doc": text},
                         repr([(h, o.code, o.out[:80]) for h, o in outs]))
        if dl.expired():
            return


_V = None


def _vocab():
    global _V
    if _V is None:
        _V = [[tuple(s) for s in segs] for n in (1, 2)
              for segs in gpaths.enum_paths_exact(n)]
    return _V


# -- yaml-set ----------------------------------------------------------------
def set_cases(text, tmp, res, dl):
    from yamlpath.exceptions import YAMLPathException
    doc, ok = gdocs.load(text)
    if not ok or doc is None or not is_container(doc):
        return
    fname = os.path.join(tmp, "set.yaml")
    targets = []
    for path, node, parent, ref in positions(doc):
        if parent is None or any(st[0] == "m" for st in path):
            continue
        segs = []
        for st in path:
            if st[0] == "i":
                segs.append(("index", st[1]))
            elif len(st) > 2 and str(st[2]) != "":
                segs.append(("key", str(st[2])))
            else:
                segs = None
                break
        if segs:
            targets.append((segs, node))
    ABSENT = "<absent>"
    missing = [[("key", "zz")]] if is_map(doc) else []
    ops = [("value", ["--value", "7"], 7), ("value", ["--value", "zz"], "zz"),
           ("value", ["--value", ""], ""), ("null", ["--null"], None),
           ("delete", ["--delete"], None),
           ("value", ["--value", "5", "--mustexist"], 5),
           ("value", ["--value", "9", "--format", "dquote"], "9")]
    k = 0
    for segs, node in targets + [(m, ABSENT) for m in missing]:
        for oi, (kind, extra, val) in enumerate(ops):
            k += 1
            if node is not ABSENT and is_container(node) and \
                    kind != "delete":
                continue
            ptext = gpaths.render(segs, "." if k % 2 else "/")
            # library expectation on a fresh copy
            fresh, _ = gdocs.load(text)
            proc = real.processor(fresh)
            want_code = 0
            try:
                if kind == "delete":
                    if node is ABSENT:
                        raise YAMLPathException("no such node", ptext)
                    for _ in proc.delete_nodes(real.ypath(ptext)):
                        pass
                elif "--format" in extra:
                    from yamlpath.enums import YAMLValueFormats
                    proc.set_value(real.ypath(ptext), "9",
                                   value_format=YAMLValueFormats.DQUOTE,
                                   mustexist=False)
                else:
                    proc.set_value(real.ypath(ptext),
                                   None if kind == "null" else str(val)
                                   if val is not None else None,
                                   mustexist="--mustexist" in extra)
                want = canon(fresh)
            except YAMLPathException:
                want_code = 1
                want = canon(doc)
            except Exception:
                continue
            for how in ("file", "stdin"):
                if how == "stdin" and k % 3:
                    continue
                with open(fname, "w") as fh:
                    fh.write(text)
                argv = ["--change", ptext] + extra
                res.evaluations += 1
                case = {"tool": "yaml-set", "argv": argv, "doc": text,
                        "delivery": how}
                try:
                    out = run("yaml-set", argv + ([fname] if how == "file"
                                                  else ["-"]),
                              None if how == "file" else text)
                except CaseTimeout:
                    res.fail({"clause": "terminates", "tool": "yaml-set"},
                             case, "30 s")
                    continue
                if crashed(out, res, case, "yaml-set"):
                    continue
                if (out.code != 0) != (want_code != 0):
                    res.fail({"clause": "exit-status", "tool": "yaml-set",
                              "want": want_code, "op": kind}, case,
                             "exit %r; stderr %r" % (out.code, out.err[:300]))
                    continue
                if how == "file":
                    after, ok2 = gdocs.load(open(fname).read())
                else:
                    after, ok2 = (gdocs.load(out.out) if out.code == 0
                                  else (doc, True))
                if not ok2:
                    res.fail({"clause": "result-reloads", "tool": "yaml-set",
                              "op": kind}, case, out.out[:300])
                    continue
                got = canon(after) if after is not None else ["n"]
                if _ss(got) != _ss(want):
                    res.fail({"clause": "file-holds-the-model-document",
                              "tool": "yaml-set", "op": kind,
                              "delivery": how}, case,
                             "expected %s\ngot      %s" % (json.dumps(want),
                                                           json.dumps(got)))
                    continue
                if want_code == 0 and _ss(want) != _ss(canon(doc)):
                    res.nontrivial(key=["set", text, argv, how], sample=False)
                res.label("yaml-set:%s:%s" % (kind, how))
        if dl.expired():
            return


def _ss(c):
    from vp.model.edit import sorted_set_canon
    return sorted_set_canon(c)


# -- yaml-merge --------------------------------------------------------------
def merge_cases(pairs, tmp, res, dl):
    from vp.props import c05
    from yamlpath.merger.exceptions import MergeException
    lf, rf = os.path.join(tmp, "l.yaml"), os.path.join(tmp, "r.yaml")
    of = os.path.join(tmp, "out.yaml")
    for n, (lt, rt) in enumerate(pairs):
        pol = c05.policy_for(n * 5 + 1, with_rules=False)
        fmt = ["yaml", "json", "auto"][n % 3]
        ldoc, ok1 = gdocs.load(lt)
        rdoc, ok2 = gdocs.load(rt)
        if not (ok1 and ok2) or ldoc is None or rdoc is None:
            continue
        try:
            merger = c05.make_merger(ldoc, pol)
            merger.merge_with(rdoc)
            want, want_ok = canon(merger.data), True
        except MergeException:
            want, want_ok = None, False
        except Exception:
            continue
        with open(lf, "w") as fh:
            fh.write(lt)
        with open(rf, "w") as fh:
            fh.write(rt)
        for how in ("stdout", "output", "stdin-rhs"):
            if how != "stdout" and (n // 3 + len(how)) % 2:
                continue
            if os.path.exists(of):
                os.remove(of)
            argv = ["-H", pol.hashes, "-A", pol.arrays, "-O", pol.aoh,
                    "-E", pol.sets, "-D", fmt, "-S"]
            sin = None
            if how == "output":
                argv += ["--output", of, lf, rf]
            elif how == "stdin-rhs":
                argv = argv[:-1] + [lf, "-"]
                sin = rt
            else:
                argv += [lf, rf]
            res.evaluations += 1
            case = {"tool": "yaml-merge", "argv": argv, "lhs": lt, "rhs": rt}
            try:
                out = run("yaml-merge", argv, sin)
            except CaseTimeout:
                res.fail({"clause": "terminates", "tool": "yaml-merge"}, case,
                         "30 s")
                continue
            if crashed(out, res, case, "yaml-merge"):
                continue
            if (out.code == 0) != want_ok:
                res.fail({"clause": "exit-status", "tool": "yaml-merge",
                          "want": 0 if want_ok else "nonzero"}, case,
                         "exit %r; stderr %r" % (out.code, out.err[:300]))
                continue
            if not want_ok:
                if how == "output" and os.path.exists(of):
                    res.fail({"clause": "no-output-after-a-merge-error",
                              "tool": "yaml-merge"}, case, "output written")
                res.label("yaml-merge:error")
                continue
            text_out = open(of).read() if how == "output" else out.out
            is_json = None
            try:
                json.loads(text_out)
                is_json = True
            except ValueError:
                is_json = False
            if fmt == "json" and not is_json and mm_kind(want) != "S":
                res.fail({"clause": "requested-output-format",
                          "tool": "yaml-merge", "fmt": fmt}, case,
                         text_out[:200])
                continue
            if fmt == "yaml" and is_json and mm_kind(want) in "ML" and \
                    want[1]:
                res.fail({"clause": "requested-output-format",
                          "tool": "yaml-merge", "fmt": fmt}, case,
                         text_out[:200])
                continue
            after, ok3 = gdocs.load(text_out)
            if not ok3:
                res.fail({"clause": "result-reloads", "tool": "yaml-merge"},
                         case, text_out[:300])
                continue
            got = canon(after) if after is not None else ["n"]
            if _loose(got) != _loose(want):
                res.fail({"clause": "prints-the-model-merge",
                          "tool": "yaml-merge", "delivery": how,
                          "fmt": fmt}, case,
                         "expected %s\ngot      %s" % (json.dumps(want),
                                                       json.dumps(got)))
                continue
            res.nontrivial(key=["merge", lt, rt, argv], sample=False)
            res.label("yaml-merge:%s:%s" % (how, fmt))
        if dl.expired():
            return


def mm_kind(c):
    return c[0] if c[0] in ("M", "L", "T") else "S"


def _loose(c):
    """JSON output cannot keep int keys or sets: compare with keys as text
    and sets as sorted key lists."""
    if c[0] == "M":
        return ["M", [[["s", str(k[1]) if len(k) > 1 else "null"], _loose(v)]
                      for k, v in c[1]]]
    if c[0] == "L":
        return ["L", [_loose(v) for v in c[1]]]
    if c[0] == "T":
        return ["M", sorted([[["s", str(m[1]) if len(m) > 1 else "null"],
                              ["n"]] for m in c[1]], key=json.dumps)]
    return c


# -- yaml-diff ---------------------------------------------------------------
def diff_cases(pairs, tmp, res, dl):
    from vp.props import c06
    lf, rf = os.path.join(tmp, "dl.yaml"), os.path.join(tmp, "dr.yaml")
    modes = c06.mode_list()
    for n, (lt, rt) in enumerate(pairs):
        arrays, aoh = modes[n % len(modes)]
        ldoc, ok1 = gdocs.load(lt)
        rdoc, ok2 = gdocs.load(rt)
        if not (ok1 and ok2) or ldoc is None or rdoc is None:
            continue
        if any(not is_container(d) and str(d) == "" for d in (ldoc, rdoc)):
            continue    # the tool deliberately reads "" as an empty document
        if aoh in ("key", "deep") and not (c06.all_hash_lists(ldoc) and
                                           c06.all_hash_lists(rdoc) and
                                           c06.paired_lists_ok(ldoc, rdoc)):
            aoh = "position"
        try:
            differ = c06.make_differ(ldoc, arrays, aoh)
            differ.compare_to(rdoc)
            entries = list(differ.get_report())
        except Exception:
            continue
        from yamlpath.differ.enums.diffactions import DiffActions
        want_changed = any(e.action is not DiffActions.SAME for e in entries)
        with open(lf, "w") as fh:
            fh.write(lt)
        with open(rf, "w") as fh:
            fh.write(rt)
        same_flag = n % 2 == 0
        argv = ["-A", arrays, "-O", aoh] + (["-s"] if same_flag else []) + \
            [lf, rf]
        res.evaluations += 1
        case = {"tool": "yaml-diff", "argv": argv[:-2], "lhs": lt, "rhs": rt}
        try:
            out = run("yaml-diff", argv)
        except CaseTimeout:
            res.fail({"clause": "terminates", "tool": "yaml-diff"}, case, "")
            continue
        if crashed(out, res, case, "yaml-diff"):
            continue
        if out.code != (1 if want_changed else 0):
            res.fail({"clause": "exit-status", "tool": "yaml-diff",
                      "want": int(want_changed)}, case,
                     "exit %r; %d non-SAME entries" % (
                         out.code, sum(1 for e in entries
                                       if e.action is not DiffActions.SAME)))
            continue
        data_equal = c06.sets_sorted(canon(ldoc)) == \
            c06.sets_sorted(canon(rdoc))
        if arrays == "position" and aoh in ("position", "dpos") and \
                (out.code == 0) != data_equal:
            res.fail({"clause": "exit-0-iff-data-equal", "tool": "yaml-diff"},
                     case, "exit %r, data_equal=%r" % (out.code, data_equal))
            continue
        heads = [ln for ln in out.out.split("\n")
                 if re.match(r"^[acds][0-9.]* ", ln)
                 and not ln.startswith(("a ", "c ", "d ", "s ")) is False]
        want_heads = ["%s %s" % (e.action, e.path if str(e.path) else "-")
                      for e in entries
                      if same_flag or e.action is not DiffActions.SAME]
        if sorted(heads) != sorted(want_heads):
            res.fail({"clause": "prints-the-differ-entries",
                      "tool": "yaml-diff"}, case,
                     "printed %r\nexpected %r" % (heads, want_heads))
            continue
        if want_changed:
            res.nontrivial(key=["diff", lt, rt, argv[:-2]], sample=False)
        res.label("yaml-diff:%s/%s" % (arrays, aoh))
        if dl.expired():
            return


# -- yaml-validate -----------------------------------------------------------
VALID = ["a: 1\n", "- 1\n- 2\n", "---\na: 1\n---\nb: 2\n", "x\n", ""]
INVALID = ["a: [1\n", "a: 1\na: 2\n", "---\na: 1\n---\nb: [\n",
           "a: &x 1\nb: &x 2\n", "- *nope\n", "{a: 1,\n",
           # well-formed syntax whose values cannot be constructed
           "released: 2020-02-30\n", "a: !!int abc\n", "a: !!bool maybe\n",
           "---\nok: 1\n---\nwhen: 2001-13-01\n", "a: \x01b\n"]


def validate_cases(tmp, res, dl, seed):
    files = []
    for i, t in enumerate(VALID):
        p = os.path.join(tmp, "v%d.yaml" % i)
        open(p, "w").write(t)
        files.append((p, True, t))
    for i, t in enumerate(INVALID):
        p = os.path.join(tmp, "i%d.yaml" % i)
        open(p, "w").write(t)
        files.append((p, False, t))
    import itertools
    n = 0
    for k in (1, 2, 3):
        for combo in itertools.product(files, repeat=k):
            n += 1
            if k == 3 and (n + seed) % 9:
                continue
            want = 0 if all(ok for _p, ok, _t in combo) else 2
            for how in ("files", "last-on-stdin"):
                if how != "files" and n % 4:
                    continue
                argv = ["-S"] + [p for p, _ok, _t in combo]
                sin = None
                if how == "last-on-stdin":
                    argv = [p for p, _ok, _t in combo[:-1]] + ["-"]
                    sin = combo[-1][2]
                res.evaluations += 1
                case = {"tool": "yaml-validate",
                        "files": [t for _p, _ok, t in combo], "how": how}
                try:
                    out = run("yaml-validate", argv, sin)
                except CaseTimeout:
                    res.fail({"clause": "terminates",
                              "tool": "yaml-validate"}, case, "")
                    continue
                if crashed(out, res, case, "yaml-validate"):
                    continue
                if out.code != want:
                    res.fail({"clause": "exit-status",
                              "tool": "yaml-validate", "want": want,
                              "files": str(k)}, case,
                             "exit %r for validity %r" % (
                                 out.code, [ok for _p, ok, _t in combo]))
                    continue
                if want:
                    res.nontrivial(key=["validate", case["files"], how],
                                   sample=False)
                res.label("yaml-validate:%d:%s" % (k, how))
        if dl.expired():
            return


# -- yaml-paths --------------------------------------------------------------
def paths_cases(texts, tmp, res, dl):
    from vp.props import c07
    from yamlpath.commands.yaml_paths import search_for_paths
    from yamlpath.eyaml import EYAMLProcessor
    from yamlpath.path import SearchTerms
    from yamlpath.enums import PathSearchMethods, PathSeparators
    fname = os.path.join(tmp, "paths.yaml")
    ops = {"EQUALS": "=", "STARTS_WITH": "^", "ENDS_WITH": "$",
           "CONTAINS": "%", "GREATER_THAN": ">", "LESS_THAN": "<"}
    n = 0
    for text in texts:
        doc, ok = gdocs.load(text)
        if not ok or doc is None or not is_container(doc) or \
                c07.has_unsupported(doc):
            continue
        open(fname, "w").write(text)
        for method, sym in ops.items():
            for term in ("a", "1", "b"):
                for inv in (False, True):
                    n += 1
                    if n % 5:
                        continue
                    keys = ["", "-k", "-K"][n % 3]
                    sep = ["dot", "fslash"][n % 2]
                    expand = n % 4 == 0
                    # reference handling: default (= -Y), -A, -y, -Y, -l
                    aflag, kal, val_al = [("", True, False),
                                          ("-A", False, False),
                                          ("-y", False, True),
                                          ("-Y", True, False),
                                          ("-l", True, True)][(n // 5) % 5]
                    terms = SearchTerms(inv, PathSearchMethods[method], ".",
                                        term)
                    proc = EYAMLProcessor(gdocs.logger(), doc)
                    try:
                        want = [str(p) for p in search_for_paths(
                            gdocs.logger(), proc, doc, terms,
                            PathSeparators.FSLASH if sep == "fslash"
                            else PathSeparators.DOT, "", None,
                            search_values=keys != "-K",
                            search_keys=keys in ("-k", "-K"),
                            search_anchors=False, include_key_aliases=kal,
                            include_value_aliases=val_al, decrypt_eyaml=False,
                            expand_children=expand, all_anchors={})]
                    except Exception:
                        continue
                    expr = ("!" if inv else "") + sym + term
                    argv = ["-s", expr, "-t", sep, "-F", "-X", "-S"] + \
                        ([keys] if keys else []) + (["-m"] if expand
                                                    else []) + \
                        ([aflag] if aflag else []) + [fname]
                    res.evaluations += 1
                    case = {"tool": "yaml-paths", "argv": argv[:-1],
                            "doc": text}
                    try:
                        out = run("yaml-paths", argv)
                    except CaseTimeout:
                        res.fail({"clause": "terminates",
                                  "tool": "yaml-paths"}, case, "")
                        continue
                    if crashed(out, res, case, "yaml-paths"):
                        continue
                    lines = [ln for ln in out.out.split("\n") if ln]
                    dedup = []
                    for w in want:
                        if w not in dedup:
                            dedup.append(w)
                    if out.code != 0 or lines != dedup:
                        res.fail({"clause": "prints-the-search-results",
                                  "tool": "yaml-paths"}, case,
                                 "exit %r printed %r expected %r; stderr %r"
                                 % (out.code, lines, dedup, out.err[:200]))
                        continue
                    if dedup:
                        res.nontrivial(key=["paths", text, argv[:-1]],
                                       sample=False)
                    res.label("yaml-paths:%s%s" % (keys or "values",
                                                   " " + aflag if aflag
                                                   else ""))
        if dl.expired():
            return


# -- multi-document streams (yaml-diff -L/-R, yaml-paths) ---------------------
MD_POOL = ["a: 1\n", "a: 2\nb: 1\n", "- 1\n- a\n", "a:\n  b: 1\nc: 1\n",
           "b: a\n", "a: 1\nb: a\n"]


def _stream(idxs):
    return "".join("---\n" + MD_POOL[i] for i in idxs)


def _streams():
    n = len(MD_POOL)
    out = [[i] for i in range(n)]
    out += [[i, j] for i in range(n) for j in range(n)]
    out += [[i, (i + 1) % n, i] for i in range(n)]
    out += [[i, (i + 2) % n, (i + 4) % n] for i in range(n)]
    return out


def multidoc_cases(tmp, res, dl, offset, part, parts):
    from vp.props import c06
    from yamlpath.differ.enums.diffactions import DiffActions
    from yamlpath.commands.yaml_paths import search_for_paths
    from yamlpath.eyaml import EYAMLProcessor
    from yamlpath.path import SearchTerms
    from yamlpath.enums import PathSearchMethods, PathSeparators
    lf, rf = os.path.join(tmp, "ml.yaml"), os.path.join(tmp, "mr.yaml")
    streams = _streams()
    n = 0
    # yaml-diff: every (L stream, R stream) x index choices, strided
    for li, ls in enumerate(streams):
        for ri, rs in enumerate(streams):
            n += 1
            if n % parts != part or (n // parts + offset) % 5:
                continue
            if dl.expired():
                return
            k = n // (parts * 5)
            i = k % (len(ls) + 1)            # == len(ls): out of range
            j = (k // 4) % (len(rs) + 1)
            give_l = len(ls) > 1 or k % 3 == 0
            give_r = len(rs) > 1 or k % 3 == 1
            if k % 11 == 0 and len(ls) > 1:
                give_l = False               # required index left out
            if k % 13 == 0 and len(rs) > 1:
                give_r = False
            use_i = i if give_l else 0
            use_j = j if give_r else 0
            argv = (["-L", str(i)] if give_l else []) + \
                (["-R", str(j)] if give_r else []) + ["-s"]
            stdin_text = None
            open(lf, "w").write(_stream(ls))
            if k % 4 == 3:
                argv += [lf, "-"]
                stdin_text = _stream(rs)
            else:
                open(rf, "w").write(_stream(rs))
                argv += [lf, rf]
            res.evaluations += 1
            case = {"tool": "yaml-diff", "multidoc": True, "argv": argv[:-2],
                    "lhs": _stream(ls), "rhs": _stream(rs),
                    "stdin": stdin_text is not None}
            try:
                out = run("yaml-diff", argv, stdin_text)
            except CaseTimeout:
                res.fail({"clause": "terminates", "tool": "yaml-diff"}, case,
                         "")
                continue
            if crashed(out, res, case, "yaml-diff"):
                continue
            heads = [ln for ln in out.out.split("\n")
                     if re.match(r"^[acds][0-9.]* ", ln)]
            unusable = (len(ls) > 1 and not give_l) or \
                (len(rs) > 1 and not give_r) or use_i >= len(ls) or \
                use_j >= len(rs)
            if unusable:
                if out.code == 0 or heads:
                    res.fail({"clause": "bad-document-index-is-refused",
                              "tool": "yaml-diff"}, case,
                             "exit %r, printed %r" % (out.code, heads))
                else:
                    res.label("yaml-diff:multidoc-refused")
                continue
            ldoc, _ = gdocs.load(MD_POOL[ls[use_i]])
            rdoc, _ = gdocs.load(MD_POOL[rs[use_j]])
            differ = c06.make_differ(ldoc, "position", "position")
            differ.compare_to(rdoc)
            entries = list(differ.get_report())
            equal = canon(ldoc) == canon(rdoc)
            want_heads = ["%s %s" % (e.action, e.path if str(e.path) else "-")
                          for e in entries]
            if (out.code == 0) != equal:
                res.fail({"clause": "exit-0-iff-selected-documents-equal",
                          "tool": "yaml-diff", "both-indexes": give_l and
                          give_r}, case,
                         "exit %r; L[%d] vs R[%d] equal=%r" % (
                             out.code, use_i, use_j, equal))
                continue
            if sorted(heads) != sorted(want_heads):
                res.fail({"clause": "prints-the-differ-entries",
                          "tool": "yaml-diff", "multidoc": True}, case,
                         "printed %r expected %r" % (heads, want_heads))
                continue
            res.nontrivial(key=["mdiff", ls, rs, argv[:-2]], sample=False)
            res.label("yaml-diff:multidoc L=%d R=%d" % (len(ls), len(rs)))
    # yaml-paths: one stream, every document's own results, in order
    fname = os.path.join(tmp, "mp.yaml")
    exprs = [("EQUALS", "=", "1"), ("EQUALS", "=", "a"),
             ("STARTS_WITH", "^", "a"), ("EQUALS", "=", "b")]
    for si, ids in enumerate(streams):
        for ei, (method, sym, term) in enumerate(exprs):
            n += 1
            if n % parts != part:
                continue
            if dl.expired():
                return
            keys = ["", "-k", "-K"][(si + ei) % 3]
            sep = ["dot", "fslash"][(si + ei) % 2]
            via_stdin = (si + ei + offset) % 3 == 0
            shown = "STDIN" if via_stdin else fname
            want = []
            for di, pi in enumerate(ids):
                doc, _ = gdocs.load(MD_POOL[pi])
                terms = SearchTerms(False, PathSearchMethods[method], ".",
                                    term)
                seen = []
                for pth in search_for_paths(
                        gdocs.logger(), EYAMLProcessor(gdocs.logger(), doc),
                        doc, terms, PathSeparators.FSLASH if sep == "fslash"
                        else PathSeparators.DOT, "", None,
                        search_values=keys != "-K",
                        search_keys=keys in ("-k", "-K"),
                        search_anchors=False, include_key_aliases=True,
                        include_value_aliases=False, decrypt_eyaml=False,
                        expand_children=False, all_anchors={}):
                    if str(pth) not in seen:
                        seen.append(str(pth))
                want += ["%s/%d: %s" % (shown, di, p_) for p_ in seen]
            argv = ["-s", sym + term, "-t", sep, "-X"] + \
                ([keys] if keys else [])
            text = _stream(ids)
            if via_stdin:
                argv += ["-"]
            else:
                open(fname, "w").write(text)
                argv += ["-S", fname]
            res.evaluations += 1
            case = {"tool": "yaml-paths", "multidoc": True, "argv": argv,
                    "doc": text, "stdin": via_stdin}
            try:
                out = run("yaml-paths", argv, text if via_stdin else None)
            except CaseTimeout:
                res.fail({"clause": "terminates", "tool": "yaml-paths"},
                         case, "")
                continue
            if crashed(out, res, case, "yaml-paths"):
                continue
            lines = [ln for ln in out.out.split("\n") if ln]
            if out.code != 0 or lines != want:
                res.fail({"clause": "prints-the-search-results",
                          "tool": "yaml-paths", "multidoc": True}, case,
                         "exit %r printed %r expected %r; stderr %r"
                         % (out.code, lines, want, out.err[:200]))
                continue
            if len(want) >= 2:
                res.nontrivial(key=["mpaths", ids, argv], sample=False)
            res.label("yaml-paths:multidoc docs=%d" % len(ids))


# -- subprocess sample -------------------------------------------------------
def subprocess_sample(tmp, res):
    """The installed console scripts, as real processes."""
    doc = "a:\n  - 1\n  - x: 2\nb: text\n"
    f = os.path.join(tmp, "sp.yaml")
    open(f, "w").write(doc)
    env = dict(os.environ)
    repo = os.environ.get("VP_REPO", "/repo")
    env["PYTHONPATH"] = repo
    cases = [
        (["/venv/bin/yaml-get", "-p", "a[1].x", f], None, 0, "2\n"),
        (["/venv/bin/yaml-get", "-p", "nope", f], None, 1, None),
        (["/venv/bin/yaml-get", "-p", "b"], doc, 0, "text\n"),
        (["/venv/bin/yaml-validate", f], None, 0, None),
        (["/venv/bin/yaml-paths", "-s", "=text", "-F", "-X", "-S", f], None,
         0, "b\n"),
        (["/venv/bin/yaml-diff", f, f], None, 0, None),
    ]
    for argv, sin, want_code, want_out in cases:
        if not os.path.exists(argv[0]):
            res.label("subprocess:script-missing")
            continue
        res.evaluations += 1
        p = subprocess.run(argv, input=sin, capture_output=True, text=True,
                           env=env, timeout=60,
                           stdin=subprocess.DEVNULL if sin is None else None)
        case = {"tool": os.path.basename(argv[0]), "argv": argv[1:],
                "subprocess": True}
        if p.returncode != want_code or (want_out is not None
                                         and p.stdout != want_out):
            res.fail({"clause": "console-script-behaves",
                      "tool": case["tool"]}, case,
                     "exit %r stdout %r stderr %r" % (
                         p.returncode, p.stdout[:200], p.stderr[-300:]))
        else:
            res.nontrivial(key=["sp", argv[1:]], sample=False)
            res.label("subprocess:" + case["tool"])


# -- planning ----------------------------------------------------------------
def corpus_texts():
    specs = gdocs.specs_upto(3, scalars=SCAL)
    return [gdocs.emit(s) for s in specs]


def plan(tier, seed):
    shards = []
    nsh = 16
    for tool in ("get", "set", "merge", "diff", "paths"):
        for i in range(nsh):
            shards.append({"kind": tool, "part": i, "parts": nsh,
                           "offset": seed,
                           "scale": 4 if tier == "quick" else 24})
    for i in range(4):
        shards.append({"kind": "multidoc", "part": i, "parts": 4,
                       "offset": seed})
    shards.append({"kind": "validate", "offset": seed})
    shards.append({"kind": "subprocess"})
    return shards


def run_shard(shard):
    res = Result()
    dl = Deadline(shard.get("budget_s"))
    tmp = tempfile.mkdtemp(prefix="vp-c16-")
    try:
        kind = shard["kind"]
        if kind == "validate":
            validate_cases(tmp, res, dl, shard["offset"])
            return res
        if kind == "subprocess":
            subprocess_sample(tmp, res)
            return res
        if kind == "multidoc":
            multidoc_cases(tmp, res, dl, shard["offset"], shard["part"],
                           shard["parts"])
            return res
        texts = corpus_texts()
        scale = shard["scale"]
        mine = texts[shard["part"]::shard["parts"]]
        off = shard["offset"]
        if kind == "get":
            step = max(1, len(mine) // (5 * scale))
            for text in mine[off % step::step]:
                get_cases(text, tmp, res, dl, 9, off)
                if dl.expired():
                    break
        elif kind == "set":
            step = max(1, len(mine) // (6 * scale))
            for text in mine[off % step::step]:
                set_cases(text, tmp, res, dl)
                if dl.expired():
                    break
        elif kind in ("merge", "diff"):
            from vp.props import c05, c06
            fam = [gdocs.emit(s) for s in (c05.family() if kind == "merge"
                                           else c06.family())]
            pool = fam + texts
            pairs = []
            total = len(pool)
            want = 60 * scale
            i = shard["part"] * 7919 + off
            while len(pairs) < want:
                i += 104729
                pairs.append((pool[(i // total) % total], pool[i % total]))
                if len(pairs) % 3 == 0:
                    j = (i // 13) % len(fam)
                    pairs.append((fam[j], fam[(j * 7 + i) % len(fam)]))
            (merge_cases if kind == "merge" else diff_cases)(pairs, tmp, res,
                                                             dl)
        else:
            from vp.props import c07
            fam = [gdocs.emit(s) for s in c07.family()]
            step = max(1, len(mine) // (8 * scale))
            paths_cases(fam[shard["part"]::shard["parts"]]
                        + mine[off % step::step], tmp, res, dl)
    finally:
        shutil.rmtree(tmp, ignore_errors=True)
    if dl.expired():
        res.truncated = True
    return res


def replay(case):
    """Re-run the recorded invocation and its oracle."""
    res = Result()
    tmp = tempfile.mkdtemp(prefix="vp-c16-")
    dl = Deadline(60)
    try:
        tool = case.get("tool")
        if case.get("multidoc"):
            for off in range(5):
                multidoc_cases(tmp, res, dl, off, 0, 1)
        elif tool == "yaml-get":
            get_cases(case["doc"], tmp, res, dl, 1, 0)
        elif tool == "yaml-set":
            set_cases(case["doc"], tmp, res, dl)
        elif tool == "yaml-merge":
            for n in range(0, 180):
                merge_cases([("", "")] * n + [(case["lhs"], case["rhs"])]
                            if False else [(case["lhs"], case["rhs"])], tmp,
                            res, dl)
                break
        elif tool == "yaml-diff":
            diff_cases([(case["lhs"], case["rhs"])] * 10, tmp, res, dl)
        elif tool == "yaml-validate":
            validate_cases(tmp, res, dl, 0)
        elif tool == "yaml-paths":
            paths_cases([case["doc"]], tmp, res, dl)
        else:
            subprocess_sample(tmp, res)
    finally:
        shutil.rmtree(tmp, ignore_errors=True)
    want = None
    fails = [r for _, recs in res.failures.values() for r in recs]
    return fails
