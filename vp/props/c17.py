"""C17 - a failing or interrupted tool run never loses the user's file.

(1) pre-write failures: exit != 0, target bytes identical, no new file.
(2) E5 fault-sequence enumeration: for successful edits with --backup a dry
run counts the I/O primitive calls of the save (open-for-write, every write()
on such a file, copy2, remove, copyfileobj); the case is then replayed once
per k with the k-th call raising OSError(EIO).  After each faulted run the
target or the .bak must hold the complete original bytes; a completed run
leaves .bak identical to the pre-image.
"""
import errno
import io
import os
import shutil
import tempfile

from vp.runner import Result, Deadline, exc_site, time_limit, CaseTimeout
from vp.tools import cli_inproc

ID = "C17"
LEVEL = "fault_enumeration"
RULE = ("Pre-write failures: yaml-set (unmatched --mustexist path, failed "
        "--check, --format int with text, --saveto with several matches, "
        "invalid YAML input, and changes that only fail when the document is "
        "serialized: an anchor name the emitter rejects, a tag on an int, a "
        "folded value ending in a blank, JSON with a self-alias or a date "
        "key) and yaml-merge (MergeException, anchor conflict "
        "under stop, unreadable / invalid second input, existing --output, "
        "--overwrite with --backup and a failing merge) over a pool of "
        "documents, with and without a stale .bak: exit != 0, directory "
        "listing unchanged, target bytes identical. Fault sequences: for "
        "each successful base case (yaml-set --backup, yaml-merge "
        "--overwrite --backup, eyaml-rotate-keys --backup with a stand-in "
        "eyaml; stale .bak present / absent; YAML and JSON targets; target "
        "a regular file or a symbolic link to the document) every "
        "I/O call of the save is failed in turn (open for write, each "
        "write(), copy2, remove, copyfileobj - a write() fault leaves the "
        "file partially written; each write() of the dump additionally "
        "failed with AssertionError, the serializer failure yaml-set's "
        "restore handler is written for): target or .bak must still hold the "
        "complete original bytes. Non-trivial = the fault lands after the "
        "first destructive step (truncate / remove), or a pre-write failure "
        "with a stale .bak; distinct by (tool, case, k).")
ASSUMPTIONS = ["faults are injected at Python-level I/O call boundaries (and "
               "between write() calls), not at arbitrary instructions or by "
               "killing the process",
               "eyaml-rotate-keys runs against vp/tools/fake_eyaml.py"]
EXHAUSTIVE = {"quick": True, "thorough": True}
SHARD_BUDGET_S = {"quick": 110, "thorough": 1800}
HARD_TIMEOUT_S = {"quick": 900, "thorough": 3600}

DOCS = ["a: 1\nb:\n  - x\n  - y\nc:\n  d: text\n",
        "- 1\n- two\n- k: v\n",
        "a: &x shared\nb: *x\nc:\n  - *x\n  - 2\n",
        '{"a": 1, "b": ["x", "y"], "c": {"d": "text"}}\n',
        "a: " + "long " * 400 + "\nb: 2\n"]


class Fault(OSError):
    pass


class Injector:
    """Counting / failing proxies for the I/O primitives of a save."""

    def __init__(self, fail_at=None, kind="oserror"):
        self.count = 0
        self.fail_at = fail_at
        self.kind = kind
        self.events = []
        self.destructive_at = None

    def _tick(self, what, destructive=False):
        self.count += 1
        self.events.append(what)
        if destructive and self.destructive_at is None:
            self.destructive_at = self.count
        if self.fail_at is not None and self.count == self.fail_at:
            if self.kind == "assertion":
                # the serializer giving up midway (the failure yaml-set's
                # restore-the-original handler is written for)
                raise AssertionError("injected dump failure at %s #%d"
                                     % (what, self.count))
            raise Fault(errno.EIO, "injected fault at %s #%d" % (what,
                                                                  self.count))

    def open(self, file, mode="r", *a, **kw):
        if isinstance(file, str) and any(c in mode for c in "wax+"):
            self._tick("open-w")
            fh = open(file, mode, *a, **kw)
            self.destructive_at = self.destructive_at or self.count
            return WriteProxy(fh, self)
        return open(file, mode, *a, **kw)

    def copy2(self, src, dst, *a, **kw):
        self._tick("copy2")
        return shutil.copy2(src, dst, *a, **kw)

    def remove(self, path):
        self._tick("remove", destructive=True)
        return os.remove(path)

    def copyfileobj(self, src, dst, *a, **kw):
        self._tick("copyfileobj")
        return shutil.copyfileobj(src, dst, *a, **kw)


class WriteProxy:
    def __init__(self, fh, inj):
        self._fh, self._inj = fh, inj

    def write(self, data):
        self._inj._tick("write")
        return self._fh.write(data)

    def __enter__(self):
        return self

    def __exit__(self, *exc):
        self._fh.close()
        return False

    def __getattr__(self, name):
        return getattr(self._fh, name)


def listing(d):
    out = {}
    for name in sorted(os.listdir(d)):
        with open(os.path.join(d, name), "rb") as fh:
            out[name] = fh.read()
    return out


def run_tool(tool, argv, inj=None, stdin_text=None, env=None):
    patches = None
    if inj is not None:
        patches = {"open": inj.open, "copy2": inj.copy2, "remove": inj.remove}
        if tool == "yaml-set":
            patches["copyfileobj"] = inj.copyfileobj
    old_env = {}
    for k, v in (env or {}).items():
        old_env[k] = os.environ.get(k)
        os.environ[k] = v
    try:
        with time_limit(60):
            return cli_inproc.run(tool, argv, stdin_text, patches)
    finally:
        for k, v in old_env.items():
            if v is None:
                os.environ.pop(k, None)
            else:
                os.environ[k] = v


# -- (1) pre-write failures --------------------------------------------------
def tilde_output_cases(res, tmp):
    """yaml-merge --output never replaces an existing file - however the
    path to it is spelled, e.g. with a leading ~ that only the tool (not the
    shell) would expand."""
    home = tempfile.mkdtemp(dir=tmp)
    cwd = tempfile.mkdtemp(dir=tmp)
    keep = b"keep: me\n"
    old_home, old_cwd = os.environ.get("HOME"), os.getcwd()
    try:
        os.environ["HOME"] = home
        os.chdir(cwd)
        for name in ("a.yaml", "b.yaml"):
            open(os.path.join(cwd, name), "w").write("%s: 1\n" % name[0])
        for spelling in ("~/out.yaml", "~/./out.yaml",
                         os.path.join(home, "out.yaml"),
                         os.path.join(home, ".", "out.yaml")):
            target = os.path.join(home, "out.yaml")
            open(target, "wb").write(keep)
            res.evaluations += 1
            case = {"tool": "yaml-merge", "output_spelling": spelling
                    if spelling.startswith("~") else "<absolute>",
                    "tilde-output": True}
            try:
                out = run_tool("yaml-merge",
                               ["-S", "--output=" + spelling, "a.yaml",
                                "b.yaml"], Injector())
            except CaseTimeout:
                res.fail({"clause": "terminates", "tool": "yaml-merge"},
                         case, "")
                continue
            if open(target, "rb").read() != keep:
                res.fail({"clause": "output-never-replaces-an-existing-file",
                          "tool": "yaml-merge",
                          "spelling": "tilde" if spelling.startswith("~")
                          else "absolute"}, case,
                         "exit %r; the existing file was replaced" % out.code)
                continue
            res.nontrivial()
            res.label("existing-output-kept:%s" % (
                "tilde" if spelling.startswith("~") else "absolute"))
    finally:
        os.chdir(old_cwd)
        if old_home is None:
            os.environ.pop("HOME", None)
        else:
            os.environ["HOME"] = old_home


def prewrite_cases(res, tmp):
    tilde_output_cases(res, tmp)
    bad = os.path.join(tmp, "bad.yaml")
    cases = []
    for di, doc in enumerate(DOCS[:4]):
        json_doc = doc.lstrip().startswith("{")
        ext = ".json" if json_doc else ".yaml"
        key = "/a" if not doc.startswith("-") else "/[0]"
        cases += [
            ("yaml-set", "unmatched-mustexist", doc, ext,
             ["--change", "/nope/zz", "--value", "1", "--mustexist"]),
            ("yaml-set", "failed-check", doc, ext,
             ["--change", key, "--value", "9", "--check", "not-the-value"]),
            ("yaml-set", "impossible-format", doc, ext,
             ["--change", key, "--value", "text", "--format", "int"]),
            ("yaml-set", "saveto-many", doc, ext,
             ["--change", "/*", "--value", "9", "--saveto", "/saved"]),
            ("yaml-set", "delete-root", doc, ext,
             ["--change", "/", "--delete"]),
        ]
        if not doc.startswith("-") and not json_doc:
            cases += [
                ("yaml-merge", "merge-exception", doc, ext, ["RHS:- 1\n"]),
                ("yaml-merge", "anchor-conflict", DOCS[2], ext,
                 ["RHS:z: &x other\n"]),
                ("yaml-merge", "invalid-rhs", doc, ext, ["RHS:a: [1\n"]),
                ("yaml-merge", "missing-rhs", doc, ext, ["RHSFILE:nofile"]),
            ]
    # changes that are only found impossible when the document is
    # serialized: nothing may have been touched by then (a crash is C16's
    # business; here only the files count)
    for doc, ext in ((DOCS[0], ".yaml"), (DOCS[2], ".yaml")):
        cases += [
            ("yaml-set", "unserializable:anchor-name", doc, ext,
             ["--change", "/b", "--aliasof", "/a", "--anchor", "x,y"]),
            ("yaml-set", "unserializable:tagged-int", doc, ext,
             ["--change", "/a", "--value", "5", "--tag", "!t"]),
            ("yaml-set", "unserializable:folded-trailing-blank", doc, ext,
             ["--change", "/a", "--value", "trail ", "--format", "folded"]),
        ]
    cases += [
        ("yaml-set", "unserializable:json-self-alias",
         '{"a": {"b": 1}, "c": 2}\n', ".json",
         ["--change", "/a/b", "--aliasof", "/a"]),
        ("yaml-set", "unserializable:json-date-key",
         "{2001-01-01: 10, b: 2}\n", ".json",
         ["--change", "/b", "--value", "3"]),
    ]
    for tool, cause, doc, ext, extra in cases:
        for stale in (False, True):
            for backup in (False, True):
                d = tempfile.mkdtemp(dir=tmp)
                target = os.path.join(d, "target" + ext)
                open(target, "w").write(doc)
                if stale:
                    open(target + ".bak", "w").write("stale backup\n")
                argv = []
                if tool == "yaml-set":
                    argv = list(extra) + (["--backup"] if backup else []) + \
                        [target]
                else:
                    rhs = os.path.join(d, "rhs.yaml")
                    for e in extra:
                        if e.startswith("RHS:"):
                            open(rhs, "w").write(e[4:])
                        elif e.startswith("RHSFILE:"):
                            rhs = os.path.join(d, e[8:])
                    argv = ["-S", "--overwrite", target] + \
                        (["--backup"] if backup else []) + [target, rhs]
                before = listing(d)
                res.evaluations += 1
                case = {"tool": tool, "cause": cause, "doc": doc,
                        "argv": [a.replace(d, "<dir>") for a in argv],
                        "stale_bak": stale, "backup": backup}
                try:
                    out = run_tool(tool, argv)
                except CaseTimeout:
                    res.fail({"clause": "terminates", "tool": tool}, case, "")
                    continue
                after = listing(d)
                if cause.startswith("unserializable") and \
                        out.exc is not None:
                    out.code = 1        # an uncaught exception exits 1
                    out.exc = None
                if out.exc is not None:
                    etype, frame, _ = exc_site(out.exc)
                    res.fail({"clause": "failure-is-reported-not-crashed",
                              "tool": tool, "cause": cause, "exc": etype},
                             case, "%s: %s" % (etype, out.exc))
                elif out.code == 0:
                    res.fail({"clause": "failure-gives-nonzero-exit",
                              "tool": tool, "cause": cause}, case,
                             "exit 0; stderr %r" % out.err[:200])
                elif after != before:
                    changed = sorted(set(after) ^ set(before)) or \
                        [k for k in after if after[k] != before.get(k)]
                    res.fail({"clause": "failure-leaves-files-untouched",
                              "tool": tool, "cause": cause,
                              "what": "new-or-removed-file"
                              if set(after) != set(before)
                              else "content-changed"}, case,
                             "changed: %r" % changed)
                else:
                    if stale or backup:
                        res.nontrivial(key=["pre", tool, cause, doc, stale,
                                            backup], sample=False)
                    res.label("prewrite:%s:%s" % (tool, cause))
                shutil.rmtree(d, ignore_errors=True)
    # yaml-merge --output never replaces an existing file
    for doc in DOCS[:1]:
        d = tempfile.mkdtemp(dir=tmp)
        lf, rf, of = (os.path.join(d, n) for n in ("l.yaml", "r.yaml",
                                                   "out.yaml"))
        open(lf, "w").write(doc)
        open(rf, "w").write("z: 1\n")
        open(of, "w").write("precious: data\n")
        before = listing(d)
        res.evaluations += 1
        out = run_tool("yaml-merge", ["-S", "--output", of, lf, rf])
        case = {"tool": "yaml-merge", "cause": "existing-output", "doc": doc}
        if out.code == 0 or out.exc is not None or listing(d) != before:
            res.fail({"clause": "output-never-replaces-an-existing-file",
                      "tool": "yaml-merge"}, case,
                     "exit %r exc %r" % (out.code, out.exc))
        else:
            res.nontrivial(key=["pre", "existing-output"], sample=False)
            res.label("prewrite:yaml-merge:existing-output")
        shutil.rmtree(d, ignore_errors=True)


    # yaml-merge: a result that cannot be serialized (JSON with a date key)
    # must not have produced a backup or touched the destination; and
    # --overwrite of a file that does not exist yet has no pre-image to back
    # up - a stale .bak must survive and the merge must still be written
    for stale in (False, True):
        d = tempfile.mkdtemp(dir=tmp)
        lf, rf, of = (os.path.join(d, n) for n in ("l.yaml", "r.yaml",
                                                   "out.json"))
        open(lf, "w").write("a: 1\n")
        open(rf, "w").write("2001-01-01: x\n")
        open(of, "w").write('{"k": 1}\n')
        if stale:
            open(of + ".bak", "w").write("stale backup\n")
        before = listing(d)
        res.evaluations += 1
        case = {"tool": "yaml-merge", "cause": "unserializable:json-date-key",
                "stale_bak": stale}
        try:
            out = run_tool("yaml-merge", ["-S", "-w", of, "-b", lf, rf])
        except CaseTimeout:
            res.fail({"clause": "terminates", "tool": "yaml-merge"}, case, "")
            continue
        if (out.code == 0 and out.exc is None) or listing(d) != before:
            after = listing(d)
            res.fail({"clause": "failure-leaves-files-untouched",
                      "tool": "yaml-merge",
                      "cause": "unserializable:json-date-key"}, case,
                     "exit %r; changed %r" % (out.code, sorted(
                         k for k in set(after) | set(before)
                         if after.get(k) != before.get(k))))
        else:
            res.nontrivial(key=["pre", "merge-unserializable", stale],
                           sample=False)
            res.label("prewrite:yaml-merge:unserializable")
        shutil.rmtree(d, ignore_errors=True)
    d = tempfile.mkdtemp(dir=tmp)
    lf, rf, of = (os.path.join(d, n) for n in ("l.yaml", "r.yaml",
                                               "new.yaml"))
    open(lf, "w").write("a: 1\n")
    open(rf, "w").write("b: 2\n")
    open(of + ".bak", "w").write("stale backup\n")
    res.evaluations += 1
    case = {"tool": "yaml-merge", "cause": "overwrite-new-file-with-backup"}
    out = run_tool("yaml-merge", ["-S", "-w", of, "-b", lf, rf])
    after = listing(d)
    if out.exc is not None or out.code != 0 or "new.yaml" not in after or \
            after.get("new.yaml.bak") != b"stale backup\n":
        res.fail({"clause": "overwrite-of-a-new-file-is-written",
                  "tool": "yaml-merge"}, case,
                 "exit %r exc %r files %r" % (out.code, out.exc,
                                              sorted(after)))
    else:
        res.nontrivial(key=["pre", "overwrite-new"], sample=False)
        res.label("prewrite:yaml-merge:overwrite-new-file")
    shutil.rmtree(d, ignore_errors=True)


# -- (2) fault sequences -----------------------------------------------------
def base_cases():
    """(tool, doc, ext, stale .bak present, extra argv, target is a symlink)"""
    cases = []
    for di, doc in enumerate(DOCS):
        json_doc = doc.lstrip().startswith("{")
        ext = ".json" if json_doc else ".yaml"
        key = "/a" if not doc.startswith("-") else "/[0]"
        for stale in (False, True):
            for link in (False, True):
                if link and di not in (0, 3):
                    continue
                cases.append(("yaml-set", doc, ext, stale,
                              ["--change", key, "--value", "changed",
                               "--backup"], link))
                if not doc.startswith("-"):
                    cases.append(("yaml-merge", doc, ext, stale, [], link))
    secret_doc = "plain: text\nsecret: %s\nlist:\n  - %s\n"
    for stale in (False, True):
        for link in (False, True):
            cases.append(("eyaml-rotate-keys", secret_doc, ".yaml", stale,
                          [], link))
    return cases


def setup_case(tool, doc, ext, stale, extra, tmp, link=False):
    d = tempfile.mkdtemp(dir=tmp)
    target = os.path.join(d, "target" + ext)
    env = {}
    if tool == "eyaml-rotate-keys":
        fake = os.path.join(os.path.dirname(os.path.dirname(
            os.path.abspath(__file__))), "tools", "fake_eyaml.py")
        keys = {}
        for n in ("oldpub", "oldpriv", "newpub", "newpriv"):
            keys[n] = os.path.join(d, n + ".pem")
            open(keys[n], "w").write("key material " + n + "\n")
        import subprocess
        enc = []
        for plain in ("s3cret", "another secret value"):
            p = subprocess.run(
                ["/venv/bin/python", fake, "encrypt", "--quiet", "--stdin",
                 "--output=string", "--pkcs7-public-key=" + keys["oldpub"],
                 "--pkcs7-private-key=" + keys["oldpriv"]],
                input=plain.encode(), capture_output=True, check=True)
            enc.append(p.stdout.decode().strip())
        doc = doc % tuple(enc)
        argv = ["--newpublickey", keys["newpub"], "--newprivatekey",
                keys["newpriv"], "--oldpublickey", keys["oldpub"],
                "--oldprivatekey", keys["oldpriv"], "--eyaml", fake,
                "--backup", target]
    elif tool == "yaml-set":
        argv = list(extra) + [target]
    else:
        rhs = os.path.join(d, "rhs.yaml")
        open(rhs, "w").write("z: merged\n")
        argv = ["-S", "--overwrite", target, "--backup", target, rhs]
    if link:
        # the user's file is a symbolic link to the real document
        open(os.path.join(d, "real" + ext), "w").write(doc)
        os.symlink("real" + ext, target)
    else:
        open(target, "w").write(doc)
    if stale:
        open(target + ".bak", "w").write("stale backup\n")
    return d, target, argv, doc.encode()


def noop_backup_cases(res, tmp):
    """--backup on a successful run whose edit leaves the bytes as they were
    (a value set to itself): the .bak must still be the pre-image, also when
    a stale .bak from an earlier run is lying about."""
    for doc, ext, key, val in (("a: 1\nb: x\n", ".yaml", "/a", "1"),
                               ("a: 1\nb: x\n", ".yaml", "/b", "x"),
                               ("- p\n- q\n", ".yaml", "/[1]", "q"),
                               ('{"a": "v"}', ".json", "/a", "v")):
        for stale in (False, True):
            d, target, argv, original = setup_case(
                "yaml-set", doc, ext, stale,
                ["--change", key, "--value", val, "--backup"], tmp)
            case = {"tool": "yaml-set", "doc": doc, "ext": ext,
                    "stale_bak": stale, "noop_edit": [key, val]}
            res.evaluations += 1
            try:
                out = run_tool("yaml-set", argv, Injector())
            except CaseTimeout:
                res.fail({"clause": "terminates", "tool": "yaml-set"}, case,
                         "")
                continue
            if out.exc is not None or out.code != 0:
                res.fail({"clause": "base-case-succeeds", "tool": "yaml-set",
                          "edit": "no-op"}, case,
                         "exit %r exc %r stderr %r" % (out.code, out.exc,
                                                       out.err[:300]))
            else:
                bak = target + ".bak"
                if not (os.path.exists(bak)
                        and open(bak, "rb").read() == original):
                    res.fail({"clause": "completed-run-leaves-identical-"
                              "backup", "tool": "yaml-set", "edit": "no-op"},
                             case, ".bak %s" % (
                                 "missing" if not os.path.exists(bak)
                                 else "differs from the pre-image"))
                else:
                    res.nontrivial()
                    res.label("noop-edit-backup:%s" % (
                        "same-bytes" if open(target, "rb").read() == original
                        else "reformatted"))
            shutil.rmtree(d, ignore_errors=True)


def fault_cases(res, tmp, part, parts, dl):
    if part == 0:
        noop_backup_cases(res, tmp)
    n = 0
    for tool, doc, ext, stale, extra, link in base_cases():
        n += 1
        if n % parts != part:
            continue
        # dry run: count the I/O events of a successful save
        d, target, argv, original = setup_case(tool, doc, ext, stale, extra,
                                               tmp, link)
        inj = Injector()
        case0 = {"tool": tool, "doc": doc if "%s" not in doc else "<secrets>",
                 "ext": ext, "stale_bak": stale, "symlink": link}
        res.evaluations += 1
        try:
            out = run_tool(tool, argv, inj)
        except CaseTimeout:
            res.fail({"clause": "terminates", "tool": tool}, case0, "")
            continue
        if out.exc is not None or out.code != 0:
            res.fail({"clause": "base-case-succeeds", "tool": tool}, case0,
                     "exit %r exc %r stderr %r" % (out.code, out.exc,
                                                   out.err[:300]))
            shutil.rmtree(d, ignore_errors=True)
            continue
        total = inj.count
        dry_events = list(inj.events)
        bak = target + ".bak"
        ok_bak = os.path.exists(bak) and open(bak, "rb").read() == original
        if not ok_bak:
            res.fail({"clause": "completed-run-leaves-identical-backup",
                      "tool": tool}, case0,
                     ".bak %s" % ("missing" if not os.path.exists(bak)
                                  else "differs from the pre-image"))
        if open(target, "rb").read() == original:
            res.fail({"clause": "base-case-changes-the-file", "tool": tool},
                     case0, "target unchanged after a successful run")
        res.label("fault-base:%s:%d-events" % (tool, total))
        shutil.rmtree(d, ignore_errors=True)
        plan_ = [(k, "oserror") for k in range(1, total + 1)]
        # the serializer failing midway: every write() of the save but, to
        # bound the count, at most the first 6 and the last 2
        wk = [k for k in range(1, total + 1) if dry_events[k - 1] == "write"]
        plan_ += [(k, "assertion") for k in (wk[:6] + wk[-2:] if len(wk) > 8
                                             else wk)]
        for k, fkind in plan_:
            if dl.expired():
                res.truncated = True
                return
            d, target, argv, original = setup_case(tool, doc, ext, stale,
                                                   extra, tmp, link)
            inj = Injector(fail_at=k, kind=fkind)
            res.evaluations += 1
            case = dict(case0, fault_at=k, fault_kind=fkind)
            try:
                out = run_tool(tool, argv, inj)
            except CaseTimeout:
                res.fail({"clause": "terminates", "tool": tool}, case, "")
                continue
            event = inj.events[k - 1] if len(inj.events) >= k else "?"
            case["event"] = event
            tbytes = open(target, "rb").read() if os.path.exists(target) \
                else None
            bak = target + ".bak"
            bbytes = open(bak, "rb").read() if os.path.exists(bak) else None
            if tbytes != original and bbytes != original:
                res.fail({"clause": "target-or-backup-holds-the-original",
                          "tool": tool, "event": event,
                          "stale_bak": stale, "fault": fkind}, case,
                         "after a fault at event %d (%s of %r): target %s, "
                         ".bak %s" % (
                             k, event, inj.events,
                             "missing" if tbytes is None else
                             "%d bytes (original %d)" % (len(tbytes),
                                                         len(original)),
                             "missing" if bbytes is None else
                             "%d bytes" % len(bbytes)))
            else:
                if inj.destructive_at is not None and k >= inj.destructive_at:
                    res.nontrivial(key=["fault", tool, ext, stale, k, fkind,
                                        link, len(original)], sample=False)
                    if len(res.samples) < 3:
                        res.samples.append(dict(case, events=inj.events))
                res.label("fault:%s:%s%s%s" % (
                    tool, event, ":assertion" if fkind == "assertion" else "",
                    ":symlink" if link else ""))
            shutil.rmtree(d, ignore_errors=True)


def plan(tier, seed):
    shards = [{"kind": "prewrite"}]
    nsh = 12
    for i in range(nsh):
        shards.append({"kind": "faults", "part": i, "parts": nsh})
    return shards


def run_shard(shard):
    res = Result()
    dl = Deadline(shard.get("budget_s"))
    tmp = tempfile.mkdtemp(prefix="vp-c17-")
    try:
        if shard["kind"] == "prewrite":
            prewrite_cases(res, tmp)
        else:
            fault_cases(res, tmp, shard["part"], shard["parts"], dl)
    finally:
        shutil.rmtree(tmp, ignore_errors=True)
    return res


def replay(case):
    res = Result()
    tmp = tempfile.mkdtemp(prefix="vp-c17-")
    try:
        if "fault_at" in case or "ext" in case:
            fault_cases(res, tmp, 0, 1, Deadline(300))
        else:
            prewrite_cases(res, tmp)
    finally:
        shutil.rmtree(tmp, ignore_errors=True)
    return [r for _, recs in res.failures.values() for r in recs]
