"""C13 - search keywords select by their definitions."""
import collections
import itertools

from vp.runner import Result, Deadline, exc_site
from vp.gen import docs as gdocs
from vp import real
from vp.model.plain import positions, is_map, is_seq, is_set

ID = "C13"
LEVEL = "exploration"
RULE = ("E1 (complete): every sequence of length <= 4 of same-kind scalars "
        "(ints, floats or text, 3 values incl. the falsy 0 / 0.0 / '' + null, so ties/repeats/nulls "
        "occur), every Array-of-Hashes and hash-of-hashes of <= 4 members "
        "whose attribute a is present / absent / null / the member itself "
        "null, each held under key x, x [max|min|unique|distinct|has_child] "
        "x inverted x parameter present/absent; parent(n) for every node "
        "of every C01 document <= 4 nodes (stride) and n = 0..depth+1; "
        "name() at every position. Oracle: the definitions in the property "
        "statement computed with collections.Counter / max() on plain "
        "values; misuse must raise YAMLPathException. Non-trivial = ties or "
        "repeats present, or the attribute is missing/null in >= 1 member, "
        "or n >= 1; distinct by (document, path).")
ASSUMPTIONS = ["comparisons inside a collection are same-kind (the "
               "quantifier says so); a null attribute value makes max/min "
               "Unspecified (counted)",
               "the order of an inverted max/min/unique result is not "
               "asserted (the statement fixes membership only)"]
EXHAUSTIVE = {"quick": True, "thorough": True}
SHARD_BUDGET_S = {"quick": 100, "thorough": 1800}
HARD_TIMEOUT_S = {"quick": 600, "thorough": 3600}

KINDS = {"int": [0, 1, 2], "float": [0.0, 0.5, 1.5], "text": ["", "a", "b"]}
MISSING = "<missing>"


def S(v):
    return ["S", v, None]


def seq_specs(kind):
    vals = KINDS[kind] + [None]
    for n in range(1, 5):
        for combo in itertools.product(vals, repeat=n):
            if all(v is None for v in combo):
                # an empty or all-null list is not recognisable as a list of
                # scalars rather than of hashes: Unspecified, not generated
                continue
            yield ["L", [S(v) for v in combo], None], list(combo)


def member_options(kind):
    """(spec, attribute value or MISSING/None-member marker)"""
    opts = [(["M", [["a", S(v)]], None], v) for v in KINDS[kind]]
    opts.append((["M", [["b", S(KINDS[kind][0])]], None], MISSING))
    opts.append((["M", [["a", S(None)], ["b", S(1)]], None], None))
    opts.append((S(None), "<null-member>"))
    return opts


def aoh_specs(kind, maxlen):
    opts = member_options(kind)
    for n in range(1, maxlen + 1):
        for combo in itertools.product(opts, repeat=n):
            yield ["L", [c[0] for c in combo], None], [c[1] for c in combo]


def hoh_specs(kind, maxlen):
    opts = member_options(kind)
    for n in range(1, maxlen + 1):
        for combo in itertools.product(opts, repeat=n):
            yield (["M", [["k%d" % i, c[0]] for i, c in enumerate(combo)],
                    None], [c[1] for c in combo])


class Unspec(Exception):
    pass


def expect(keyword, inverted, has_param, shape, values):
    """Expected (ordered?, indexes) or 'error'.  values: per-member value
    (scalar | None | MISSING | '<null-member>')."""
    if keyword in ("DISTINCT",) and inverted:
        return "error"
    n = len(values)
    if shape == "seq":
        if has_param:
            return "error"
        present = [(i, v) for i, v in enumerate(values)]
    else:
        if shape == "aoh" and all(v == "<null-member>" for v in values):
            raise Unspec("list of nulls is not recognisably an AoH")
        if not has_param:
            return "error"
        present = [(i, v) for i, v in enumerate(values)
                   if v is not MISSING and v != "<null-member>"]
    if keyword in ("MAX", "MIN"):
        # (a null value / attribute is not comparable: never among the
        # greatest or least, always among "the others")
        cands = [(i, v) for i, v in present if v is not None]
        if not cands:
            plain = []
        else:
            ext = (max if keyword == "MAX" else min)(v for _, v in cands)
            plain = [i for i, v in cands if v == ext]
        if inverted:
            return ("set", [i for i in range(n) if i not in plain])
        return ("list", plain)
    counts = collections.Counter(repr(v) for _, v in present)
    if keyword == "UNIQUE":
        if inverted:
            return ("set", [i for i, v in present if counts[repr(v)] > 1])
        return ("list", [i for i, v in present if counts[repr(v)] == 1])
    if keyword == "DISTINCT":
        seen = set()
        out = []
        for i, v in present:
            if repr(v) not in seen:
                seen.add(repr(v))
                out.append(i)
        return ("list", out)
    raise ValueError(keyword)


def run_case(text, doc, ptext, res, expected, label, nontrivial):
    from yamlpath.exceptions import YAMLPathException
    res.evaluations += 1
    case = {"doc": text, "path": ptext}
    proc = real.processor(doc)
    coll = doc["x"]
    try:
        got = list(proc.get_nodes(real.ypath(ptext), mustexist=False))
        outcome = "ok"
    except YAMLPathException:
        outcome = "error"
    except Exception as exc:
        etype, frame, src = exc_site(exc)
        if expected == "error":
            res.fail({"clause": "misuse-raises-yamlpath-error", "exc": etype,
                      "frame": frame}, case, "%s: %s" % (etype, exc))
        else:
            res.label("crash(see C15):%s@%s" % (etype, frame))
        return
    if expected == "error":
        if outcome != "error":
            res.fail({"clause": "misuse-raises-yamlpath-error",
                      "exc": "none", "frame": label}, case,
                     "expected a YAMLPathException, got %d result(s)"
                     % len(got))
        else:
            res.label("misuse-refused")
        return
    mode, idxs = expected
    if outcome == "error":
        res.fail({"clause": "unexpected-error", "what": label}, case,
                 "expected members %r" % (idxs,))
        return
    refs = list(coll.keys()) if is_map(coll) else list(range(len(coll)))
    want = [(id(coll), repr(real.refkey(coll, refs[i]))) for i in idxs]
    have = [real.nc_ident(g) for g in got]
    ok = (have == want) if mode == "list" else (
        sorted(have) == sorted(want))
    if not ok:
        res.fail({"clause": "keyword-selection", "what": label}, case,
                 "expected members %r, got %r" % (
                     [refs[i] for i in idxs],
                     [g.parentref for g in got]))
    if nontrivial:
        res.nontrivial()
        if len(res.samples) < 3 and len(idxs) >= 1:
            res.samples.append(dict(case, expected_members=[
                str(refs[i]) for i in idxs]))
    res.label("checked:" + label.split(":")[0])


def collection_cases(shape, kind, spec, values, res):
    doc_spec = ["M", [["x", spec]], None]
    text = gdocs.emit(doc_spec)
    doc, ok = gdocs.load(text)
    if not ok:
        raise RuntimeError("document does not load: %r" % text)
    vals = [v for v in values if v not in (MISSING, "<null-member>")]
    nontrivial = (len(set(map(repr, vals))) < len(vals)
                  or len(vals) < len(values) or None in vals)
    for keyword in ("MAX", "MIN", "UNIQUE", "DISTINCT"):
        for inverted in (False, True):
            for has_param in (False, True):
                ptext = "x[%s%s(%s)]" % ("!" if inverted else "",
                                         keyword.lower(),
                                         "a" if has_param else "")
                label = "%s:%s:%s%s" % (keyword, shape,
                                        "inv" if inverted else "plain",
                                        ":param" if has_param else "")
                try:
                    exp = expect(keyword, inverted, has_param, shape, values)
                except Unspec:
                    res.label("unspecified")
                    continue
                run_case(text, doc, ptext, res, exp, label, nontrivial)
    # has_child on AoH / hash-of-hashes: exactly the hashes having key a
    if shape in ("aoh", "hoh"):
        for inverted in (False, True):
            if shape == "aoh" and any(v == "<null-member>" for v in values) \
                    and (inverted or all(v == "<null-member>"
                                         for v in values)):
                # whether a null member "lacks" the key is not said; the
                # plain form must still find the hashes that have it
                continue
            if shape == "aoh":
                ptext = "x[%shas_child(a)]" % ("!" if inverted else "")
            else:
                ptext = "x.*[%shas_child(a)]" % ("!" if inverted else "")
            having = [i for i, v in enumerate(values)
                      if v is not MISSING and v != "<null-member>"]
            lacking = [i for i, v in enumerate(values) if v is MISSING]
            nulls = [i for i, v in enumerate(values) if v == "<null-member>"]
            if nulls and (inverted or shape != "aoh"):
                continue      # a null child is not a hash: Unspecified
            exp = ("list", lacking if inverted else having)
            run_case(text, doc, ptext, res, exp,
                     "HAS_CHILD:%s:%s" % (shape,
                                          "inv" if inverted else "plain"),
                     bool(lacking) and bool(having))


MIXED_STYLE = [
    # equal values written in different YAML styles (bare / quoted,
    # anchored / plain) are still equal values
    ("seq", "x:\n  - alpha\n  - \"alpha\"\n  - beta\n",
     ["alpha", "alpha", "beta"]),
    ("seq", "x:\n  - 'b'\n  - a\n  - b\n  - \"a\"\n", ["b", "a", "b", "a"]),
    ("seq", "x:\n  - &w 80\n  - 80\n  - 81\n", [80, 80, 81]),
    ("seq", "x:\n  - 7\n  - &v 8\n  - 8\n  - *v\n", [7, 8, 8, 8]),
    ("aoh", "x:\n  - a: alpha\n  - a: 'alpha'\n  - a: beta\n",
     ["alpha", "alpha", "beta"]),
    ("aoh", "x:\n  - a: &w 80\n  - a: 81\n  - a: 80\n", [80, 81, 80]),
    ("hoh", "x:\n  k0:\n    a: \"alpha\"\n  k1:\n    a: beta\n"
            "  k2:\n    a: alpha\n", ["alpha", "beta", "alpha"]),
    ("hoh", "x:\n  k0:\n    a: &w 80\n  k1:\n    a: 80\n", [80, 80]),
]


def mixed_style_cases(res):
    for shape, text, values in MIXED_STYLE:
        doc, ok = gdocs.load(text)
        if not ok:
            raise RuntimeError("document does not load: %r" % text)
        for keyword in ("MAX", "MIN", "UNIQUE", "DISTINCT"):
            for inverted in (False, True):
                has_param = shape != "seq"
                ptext = "x[%s%s(%s)]" % ("!" if inverted else "",
                                         keyword.lower(),
                                         "a" if has_param else "")
                label = "%s:%s:%s:mixed-style" % (
                    keyword, shape, "inv" if inverted else "plain")
                exp = expect(keyword, inverted, has_param, shape, values)
                run_case(text, doc, ptext, res, exp, label, True)


def parent_and_name_cases(text, doc, res):
    """parent(n) / name() at every position of a document."""
    from yamlpath.exceptions import YAMLPathException
    from vp.model import pathast
    pos = positions(doc)
    by_path = {p: (n, par, ref) for p, n, par, ref in pos}
    for path, node, parent, ref in pos:
        if any(step[0] == "m" for step in path):
            continue
        segs = []
        for step in path:
            if step[0] == "i":
                segs.append(("index", step[1]))
            else:
                segs.append(("key", str(step[2])))
        base = pathast.write_path(segs, "/") if segs else "/"
        depth = len(path)
        proc = real.processor(doc)
        for n in range(0, depth + 2):
            ptext = base.rstrip("/") + "[parent(%d)]" % n if segs else \
                "/[parent(%d)]" % n
            res.evaluations += 1
            case = {"doc": text, "path": ptext}
            try:
                got = list(proc.get_nodes(real.ypath(ptext), mustexist=True))
                outcome = "ok"
            except YAMLPathException:
                outcome = "error"
            except Exception as exc:
                res.fail({"clause": "parent-raises-yamlpath-error",
                          "exc": type(exc).__name__}, case, str(exc))
                continue
            if n > depth:
                if outcome != "error":
                    res.fail({"clause": "parent-above-root-refused"}, case,
                             "got %r" % ([g.node for g in got],))
                else:
                    res.label("parent:refused-above-root")
                continue
            target = by_path[path[:depth - n]][0]
            if outcome != "ok" or len(got) != 1 or got[0].node is not target:
                res.fail({"clause": "parent-nth-ancestor",
                          "n": "0" if n == 0 else "1" if n == 1 else ">1"},
                         case, "expected the node at depth %d, got %r" % (
                             depth - n, [g.node for g in got]
                             if outcome == "ok" else "YAMLPathException"))
            if n >= 1:
                res.nontrivial()
            res.label("parent:checked")
        # chained climbs: [parent(m)][parent(n)] is the (m+n)-th ancestor
        for m, n in ((1, 1), (1, 2), (2, 1)):
            if depth < 1:
                break
            ptext = base.rstrip("/") + "[parent(%d)][parent(%d)]" % (m, n)
            res.evaluations += 1
            case = {"doc": text, "path": ptext}
            try:
                got = list(proc.get_nodes(real.ypath(ptext), mustexist=True))
                outcome = "ok"
            except YAMLPathException:
                outcome = "error"
            except Exception as exc:
                res.fail({"clause": "parent-raises-yamlpath-error",
                          "exc": type(exc).__name__}, case, str(exc))
                continue
            if m + n > depth:
                if outcome != "error":
                    res.fail({"clause": "parent-above-root-refused",
                              "chained": True}, case,
                             "got %r" % ([g.node for g in got],))
                continue
            target = by_path[path[:depth - m - n]][0]
            if outcome != "ok" or len(got) != 1 or got[0].node is not target:
                res.fail({"clause": "parent-nth-ancestor", "n": "chained"},
                         case, "expected the node at depth %d, got %r" % (
                             depth - m - n, [g.node for g in got]
                             if outcome == "ok" else "YAMLPathException"))
            res.nontrivial()
            res.label("parent:chained-checked")
        if segs:
            ptext = base + "[name()]"
            res.evaluations += 1
            case = {"doc": text, "path": ptext}
            try:
                got = list(proc.get_nodes(real.ypath(ptext), mustexist=True))
            except YAMLPathException as exc:
                res.fail({"clause": "name-returns-ref", "why": "raises"},
                         case, str(exc))
                continue
            except Exception as exc:
                res.label("crash(see C15):" + type(exc).__name__)
                continue
            if len(got) != 1 or got[0].node != ref or \
                    type(got[0].node) is not type(ref):
                res.fail({"clause": "name-returns-ref", "why": "wrong"},
                         case, "expected %r got %r" % (
                             ref, [g.node for g in got]))
            res.nontrivial()
            res.label("name:checked")


def plan(tier, seed):
    shards = []
    maxlen = 4
    for kind in KINDS:
        shards.append({"kind": "seq", "scalar": kind})
        for part in range(4):
            shards.append({"kind": "aoh", "scalar": kind, "maxlen": maxlen,
                           "part": part, "parts": 4})
            shards.append({"kind": "hoh", "scalar": kind, "maxlen": maxlen,
                           "part": part, "parts": 4})
    nsh = 16
    for i in range(nsh):
        shards.append({"kind": "parent", "part": i, "parts": nsh,
                       "nmax": 4, "stride": 4 if tier == "quick" else 1,
                       "offset": seed})
    return shards


def run_shard(shard):
    res = Result()
    dl = Deadline(shard.get("budget_s"))
    k = shard["kind"]
    if k == "seq":
        if shard["scalar"] == "text":
            mixed_style_cases(res)
        for spec, values in seq_specs(shard["scalar"]):
            collection_cases("seq", shard["scalar"], spec, values, res)
    elif k in ("aoh", "hoh"):
        gen = aoh_specs if k == "aoh" else hoh_specs
        for i, (spec, values) in enumerate(gen(shard["scalar"],
                                               shard["maxlen"])):
            if i % shard["parts"] != shard["part"]:
                continue
            if dl.expired():
                res.truncated = True
                break
            collection_cases(k, shard["scalar"], spec, values, res)
    else:
        specs = gdocs.specs_upto(shard["nmax"])
        for di in range(shard["part"], len(specs), shard["parts"]):
            if shard["stride"] > 1 and \
                    (di // shard["parts"] + shard["offset"]) % shard["stride"]:
                continue
            if dl.expired():
                res.truncated = True
                break
            text = gdocs.emit(specs[di])
            doc, ok = gdocs.load(text)
            if not ok or doc is None:
                continue
            parent_and_name_cases(text, doc, res)
    return res


def replay(case):
    res = Result()
    doc, ok = gdocs.load(case["doc"])
    if not ok:
        raise RuntimeError("replay document does not load")
    ptext = case["path"]
    if "parent(" in ptext or "name()" in ptext:
        parent_and_name_cases(case["doc"], doc, res)
    else:
        # rebuild member values from the document
        coll = doc["x"]
        members = list(coll.values()) if is_map(coll) else list(coll)
        shape = "hoh" if is_map(coll) else (
            "aoh" if any(is_map(m) for m in members) else "seq")
        values = []
        for m in members:
            if shape == "seq":
                values.append(m)
            elif m is None:
                values.append("<null-member>")
            elif "a" in m:
                values.append(m["a"])
            else:
                values.append(MISSING)
        spec = None
        text = case["doc"]
        # reuse collection_cases on the loaded text
        import json as _json
        def _spec_of(node):
            if is_map(node):
                return ["M", [[k, _spec_of(v)] for k, v in node.items()], None]
            if is_seq(node):
                return ["L", [_spec_of(v) for v in node], None]
            return ["S", node if not hasattr(node, "real") or
                    isinstance(node, (bool, str)) else
                    (float(node) if isinstance(node, float) else int(node)),
                    None]
        collection_cases(shape, "?", _spec_of(coll), values, res)
    return [r for _, recs in res.failures.values() for r in recs
            if r["case"]["path"] == ptext or True]
