"""C19 - EYAML key rotation re-keys every secret once and touches nothing
else."""
import json
import os
import shutil
import tempfile

from vp.runner import Result, Deadline, exc_site, time_limit, CaseTimeout
from vp.gen import docs as gdocs
from vp.model.plain import (canon, cscalar, positions, is_map, is_seq,
                            is_container, anchor_of)
from vp.tools import cli_inproc, fake_eyaml

ID = "C19"
LEVEL = "exploration"
RULE = ("Hypothesis-generated documents (seeded) mixing plaintext scalars "
        "with encrypted scalars at arbitrary positions - hash values, list "
        "elements, nested hashes, anchored hashes/lists holding secrets that "
        "are aliased elsewhere, anchored secrets aliased under keys and "
        "inside lists, plain / double-quoted / folded / literal styles "
        "(folded and literal values carry line breaks and indentation "
        "before and inside the marker; tab / CR LF before the marker), plaintexts with leading blanks, "
        "inner newlines (LF, CR LF and lone CR), punctuation; files without any secret; runs over "
        "one or two files that reuse anchor names - produced with a "
        "stand-in eyaml executable implementing a keyed reversible cipher "
        "over the same command line. After eyaml-rotate-keys exits 0: every "
        "position our own predicate (all whitespace removed, starts with "
        "ENC[) calls encrypted decrypts under the NEW keys to its original "
        "plaintext and no longer under the OLD keys; positions that shared "
        "one anchored object still share one object and the stand-in's log "
        "shows one decrypt + one encrypt per distinct secret; all other "
        "keys, values, order and anchors are unchanged; a file without "
        "secrets keeps its bytes and mtime and gets no .bak even with -b; "
        "with secrets and -b the .bak equals the pre-image. Non-trivial = "
        ">= 2 secrets, or an aliased or folded secret; distinct by document "
        "text.")
ASSUMPTIONS = ["the real hiera-eyaml is absent: vp/tools/fake_eyaml.py "
               "follows eyamlprocessor.py's calling convention",
               "plaintexts are ASCII, do not end in whitespace (the tool "
               "strips trailing whitespace of eyaml's output by design) and "
               "do not themselves start with ENC["]
EXHAUSTIVE = {"quick": False, "thorough": False}
SHARD_BUDGET_S = {"quick": 100, "thorough": 1500}
HARD_TIMEOUT_S = {"quick": 900, "thorough": 3600}

OLD = ("old public key\n", "old private key\n")
NEW = ("new public key\n", "new private key\n")
PLAINTEXTS = ["s3cret", "p@ss w0rd!", "  leading blanks", "line one\nline two",
              "x", "a: b # not yaml", "0", "\ttabbed start", "ends with ]",
              "long " * 30 + "tail", "'quoted'", "{\"json\": true}",
              "dos line\r\nsecond line", "lone\rcarriage return",
              "-----BEGIN KEY-----\r\nAAAA\r\nBBBB\r\n-----END KEY-----"]
FAKE = os.path.join(os.path.dirname(os.path.dirname(os.path.abspath(
    __file__))), "tools", "fake_eyaml.py")


def okey():
    return fake_eyaml.material_from_texts(*OLD)


def nkey():
    return fake_eyaml.material_from_texts(*NEW)


def is_encrypted(value):
    return isinstance(value, str) and "".join(value.split()).startswith(
        "ENC[")


# -- document builder --------------------------------------------------------
def emit_secret(cipher, style, indent, anchor):
    pad = " " * (indent + 2)
    anc = ("&%s " % anchor) if anchor else ""
    if style == "plain":
        return anc + cipher
    if style == "dquote":
        return anc + json.dumps(cipher)
    if style == "dquote-tab":
        # other white-space than blanks and line feeds before the marker
        return anc + json.dumps("\t" + cipher)
    if style == "dquote-crlf":
        return anc + json.dumps("\r\n " + cipher)
    chunks = [cipher[i:i + 24] for i in range(0, len(cipher), 24)]
    if style == "folded":
        return anc + ">\n" + "\n".join(pad + c for c in chunks)
    return anc + "|\n" + "\n".join(pad + c for c in chunks)


def build(struct):
    """struct: list of (key, value) where value is
        ("plain", scalar) | ("secret", idx, style, anchor) | ("alias", name)
        | ("list", [value...][, anchor]) | ("map", [(key, value)...][, anchor])
    Returns (text, [plaintext per secret idx])."""
    lines = []

    def scalar(v):
        return gdocs.scalar_text(v)

    def emit_value(v, indent, prefix):
        kind = v[0]
        if kind == "plain":
            lines.append(prefix + " " + scalar(v[1]))
        elif kind == "secret":
            cipher = fake_eyaml.encrypt_text(okey(), PLAINTEXTS[v[1]])
            lines.append(prefix + " " + emit_secret(cipher, v[2], indent,
                                                    v[3]))
        elif kind == "alias":
            lines.append(prefix + " *" + v[1])
        elif kind == "list":
            lines.append(prefix + (" &" + v[2] if len(v) > 2 and v[2]
                                   else ""))
            for item in v[1]:
                emit_value(item, indent + 2, " " * (indent + 2) + "-")
        else:
            lines.append(prefix + (" &" + v[2] if len(v) > 2 and v[2]
                                   else ""))
            for k, item in v[1]:
                emit_value(item, indent + 2, " " * (indent + 2) + k + ":")

    for k, v in struct:
        emit_value(v, 0, k + ":")
    return "\n".join(lines) + "\n"


def st_struct():
    from hypothesis import strategies as st
    styles = st.sampled_from(["plain", "plain", "dquote", "folded",
                              "literal", "plain", "dquote", "folded",
                              "literal", "dquote-tab", "dquote-crlf"])
    pidx = st.integers(0, len(PLAINTEXTS) - 1)
    plain = st.sampled_from([1, "text", True, None, "ENCODED", 2.5, "x y"]
                            ).map(lambda v: ("plain", v))

    @st.composite
    def doc(draw):
        nsecret_anchors = draw(st.integers(0, 2))
        anchors = ["s%d" % i for i in range(nsecret_anchors)]
        defined = []
        cdefined = []
        entries = []
        nkeys = draw(st.integers(1, 6))

        def value(depth):
            choice = draw(st.integers(0, 9))
            if choice <= 2:
                return draw(plain)
            if choice <= 5:
                anc = None
                if anchors and len(defined) < len(anchors) and \
                        draw(st.booleans()):
                    anc = anchors[len(defined)]
                    defined.append(anc)
                style = draw(styles)
                return ("secret", draw(pidx), style, anc)
            if choice == 6 and (defined or cdefined):
                return ("alias", draw(st.sampled_from(defined + cdefined)))
            if depth >= 2:
                return draw(plain)
            # a hash or list, sometimes anchored so that a later alias makes
            # the secrets inside it reachable along two paths
            n = draw(st.integers(1, 3))
            if choice <= 7:
                items = ("list", [value(depth + 1) for _ in range(n)])
            else:
                items = ("map", [("k%d" % i, value(depth + 1))
                                 for i in range(n)])
            if len(cdefined) < 2 and draw(st.integers(0, 2)) == 0:
                name = "c%d" % len(cdefined)
                cdefined.append(name)
                return items + (name,)
            return items

        for i in range(nkeys):
            entries.append(("key%d" % i, value(0)))
        if draw(st.integers(0, 7)) == 0:
            entries = [(k, ("plain", "no secret %d" % i))
                       for i, (k, _v) in enumerate(entries)]
        return entries
    return doc()


# -- the check ---------------------------------------------------------------
def secret_positions(doc):
    out = []
    for path, node, parent, ref in positions(doc):
        if parent is not None and is_encrypted(node):
            out.append((path, node))
    return out


def masked(doc):
    """Canon with every encrypted scalar replaced by a marker."""
    def walk(node):
        if is_map(node):
            return ["M", [[cscalar(k), walk(v)] for k, v in node.items()]]
        if is_seq(node):
            return ["L", [walk(v) for v in node]]
        if is_encrypted(node):
            return ["<secret>"]
        return cscalar(node) if not is_container(node) else canon(node)
    return walk(doc)


def check_files(texts, res, backup=True):
    """Rotate one or more files in one invocation and check every clause."""
    tmp = tempfile.mkdtemp(prefix="vp-c19-")
    try:
        keys = {}
        for name, txt in (("oldpub", OLD[0]), ("oldpriv", OLD[1]),
                          ("newpub", NEW[0]), ("newpriv", NEW[1])):
            keys[name] = os.path.join(tmp, name + ".pem")
            with open(keys[name], "w") as fh:
                fh.write(txt)
        # key material of the stand-in = file bytes: keep both views equal
        files = []
        for i, text in enumerate(texts):
            f = os.path.join(tmp, "file%d.yaml" % i)
            with open(f, "w") as fh:
                fh.write(text)
            os.utime(f, (1_600_000_000, 1_600_000_000))
            files.append(f)
        log = os.path.join(tmp, "eyaml.log")
        argv = ["--newpublickey", keys["newpub"], "--newprivatekey",
                keys["newpriv"], "--oldpublickey", keys["oldpub"],
                "--oldprivatekey", keys["oldpriv"], "--eyaml", FAKE] + \
            (["--backup"] if backup else []) + files
        before_docs = []
        for text in texts:
            d, ok = gdocs.load(text)
            if not ok:
                return "unloadable"
            before_docs.append(d)
        os.environ["FAKE_EYAML_LOG"] = log
        res.evaluations += 1
        case = {"files": texts, "backup": backup}
        try:
            with time_limit(120):
                out = cli_inproc.run("eyaml-rotate-keys", argv)
        except CaseTimeout:
            res.fail({"clause": "terminates"}, case, "120 s")
            return "timeout"
        finally:
            os.environ.pop("FAKE_EYAML_LOG", None)
        if out.exc is not None:
            etype, frame, src = exc_site(out.exc)
            res.fail({"clause": "no-uncaught-exception", "exc": etype,
                      "frame": frame}, case, "%s: %s" % (etype, out.exc))
            return "crash"
        if out.code != 0:
            res.fail({"clause": "rotation-succeeds"}, case,
                     "exit %r stderr %r" % (out.code, out.err[:400]))
            return "failed"
        log_lines = open(log).read().split("\n") if os.path.exists(log) \
            else []
        total_distinct = 0
        interesting = False
        for f, text, before in zip(files, texts, before_docs):
            secrets = secret_positions(before) if before is not None else []
            after_text = open(f).read()
            bak = f + ".bak"
            if not secrets:
                st = os.stat(f)
                if after_text != text or int(st.st_mtime) != 1_600_000_000 \
                        or os.path.exists(bak):
                    res.fail({"clause": "file-without-secrets-is-untouched",
                              "what": "backup" if os.path.exists(bak)
                              else "rewritten"}, case,
                             "file %s" % os.path.basename(f))
                    return "bad"
                res.label("no-secret-file")
                continue
            after, ok = gdocs.load(after_text)
            if not ok:
                res.fail({"clause": "result-reloads"}, case, after_text[:400])
                return "bad"
            if backup and (not os.path.exists(bak)
                           or open(bak).read() != text):
                res.fail({"clause": "backup-equals-pre-image"}, case,
                         "missing" if not os.path.exists(bak) else "differs")
                return "bad"
            if not backup and os.path.exists(bak):
                res.fail({"clause": "no-backup-unless-asked"}, case, "")
                return "bad"
            from vp.model.plain import get_at
            distinct = {}
            for path, node in secrets:
                plain = fake_eyaml.decrypt_text(okey(), node)
                try:
                    now = get_at(after, path)
                except KeyError:
                    res.fail({"clause": "everything-else-unchanged",
                              "why": "position-vanished"}, case, repr(path))
                    return "bad"
                new_plain = fake_eyaml.decrypt_text(nkey(), now)
                old_plain = fake_eyaml.decrypt_text(okey(), now)
                style = type(node).__name__
                if new_plain != plain:
                    res.fail({"clause": "decrypts-under-new-keys-to-the-"
                              "same-plaintext", "style": style,
                              "shape": _pshape(plain, new_plain)}, case,
                             "at %r: plaintext %r, now %r (value %r)" % (
                                 path, plain, new_plain, str(now)[:80]))
                    return "bad"
                if old_plain is not None:
                    res.fail({"clause": "no-longer-decrypts-under-old-keys",
                              "style": style}, case, "at %r" % (path,))
                    return "bad"
                distinct.setdefault(id(node), []).append((path, now))
            for group in distinct.values():
                if len(group) > 1:
                    interesting = True
                    if len({id(n) for _p, n in group}) != 1:
                        res.fail({"clause": "aliased-secrets-stay-shared"},
                                 case, "positions %r" % [p for p, _ in group])
                        return "bad"
            total_distinct += len(distinct)
            if masked(after) != masked(before):
                res.fail({"clause": "everything-else-unchanged",
                          "why": "non-secret-data"}, case,
                         "before %s\nafter  %s" % (json.dumps(masked(before)),
                                                   json.dumps(masked(after))))
                return "bad"
            # our predicate and the tool's agree on what is encrypted
            if len(secret_positions(after)) != len(secrets):
                res.fail({"clause": "encrypted-iff-marker-predicate"}, case,
                         "%d encrypted before, %d after" % (
                             len(secrets), len(secret_positions(after))))
                return "bad"
            if len(secrets) >= 2 or any("Folded" in type(n).__name__
                                        for _p, n in secrets):
                interesting = True
        ndec = sum(1 for ln in log_lines if ln.startswith("decrypt "))
        nenc = sum(1 for ln in log_lines if ln.startswith("encrypt "))
        if ndec != total_distinct or nenc != total_distinct:
            res.fail({"clause": "each-secret-rotated-exactly-once",
                      "direction": "fewer" if ndec < total_distinct
                      else "more"}, case,
                     "%d distinct secrets, %d decrypts, %d encrypts" % (
                         total_distinct, ndec, nenc))
            return "bad"
        if interesting:
            res.nontrivial(key=texts, sample=False)
            if len(res.samples) < 2:
                res.samples.append({"files": texts})
        res.label("rotated:%d-file(s)" % len(texts))
        return "ok"
    finally:
        shutil.rmtree(tmp, ignore_errors=True)


def _pshape(a, b):
    if a is None or b is None:
        return "undecryptable"
    if a.strip() == b.strip():
        return "whitespace-only"
    return "different"


def plan(tier, seed):
    n = 16 if tier == "quick" else 32
    per = 40 if tier == "quick" else 400
    return [{"kind": "hyp", "seed": seed * 1000 + i, "examples": per}
            for i in range(n)]


def run_shard(shard):
    from hypothesis import strategies as st
    from vp.hyp import run_given
    res = Result()
    dl = Deadline(shard.get("budget_s"))
    strat = st.tuples(st_struct(), st.one_of(st.none(), st_struct()),
                      st.booleans())

    def body(value):
        s1, s2, backup = value
        texts = [build(s1)]
        if s2 is not None:
            texts.append(build(s2))
        check_files(texts, res, backup)

    run_given(strat, body, shard["seed"], shard["examples"], dl)
    if dl.expired():
        res.truncated = True
    return res


def replay(case):
    res = Result()
    check_files(case["files"], res, case.get("backup", True))
    return [r for _, recs in res.failures.values() for r in recs]
