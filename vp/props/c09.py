"""C09 - queries never modify the document; creation adds exactly the missing
path."""
import itertools
import json

from vp.runner import (Result, Deadline, exc_site, time_limit,
                       CaseTimeout)
from vp.gen import docs as gdocs, paths as gpaths
from vp.model import query as mq, edit as medit
from vp.model.compare import Unspecified
from vp.model.plain import (canon, cscalar, positions, snapshot, is_map,
                            is_seq, is_set, is_container)
from vp import real
from vp.props import c15

ID = "C09"
LEVEL = "exploration"
ANY = ["<any>"]

OPERANDS = ["a", "b", "*", "**", "a.b", "a.a", "b.a", "[0]", "a[0]", "b.*"]
RULE = ("Purity E1: every document <= 3 nodes plus a 64-document family of "
        "hashes holding hashes/lists (so collector operands share keys) and 4 "
        "documents whose hashes use YAML merge keys x "
        "(i) the C01 vocabulary paths <= 2 segments and (ii) %d collector "
        "expressions (p), (p)+(q), (p)-(q), (p)&(q) and one nesting level "
        "over 10 operands, (iii) a stride of the 61-item C15 vocabulary "
        "(keywords, slices, invalid input); a snapshot (typed data, key "
        "order, anchors, alias cells) is taken before and after exists(), a "
        "fully consumed required query and - when the reference evaluator "
        "says the path exists with no dead branch - the optional query. "
        "Creation E1: every document <= 3 nodes x every container or null "
        "(for a Set: naming a missing member adds that member only) "
        "prefix x missing tails of 1-3 key/index steps (index = len .. "
        "len+2), through set_value() and get_nodes(default_value=), each on "
        "a fresh copy: afterwards the path must resolve to exactly one node "
        "equal to the value, created sequences have length index+1 (padding "
        "content unasserted) and every pre-existing node is unchanged. "
        "Non-trivial: collector with a non-empty right operand / tail "
        "length >= 2 or padding >= 1; distinct by (document, path, entry)."
        % (len(OPERANDS) + 3 * len(OPERANDS) ** 2 + 60))
ASSUMPTIONS = ["YAMLPathExceptions are allowed outcomes; the snapshot must "
               "still match", "a null standing where the path continues is "
               "treated as missing and replaced by the created tail"]
EXHAUSTIVE = {"quick": False, "thorough": False}
SHARD_BUDGET_S = {"quick": 100, "thorough": 2400}
HARD_TIMEOUT_S = {"quick": 900, "thorough": 7200}


def collector_paths():
    out = ["(%s)" % x for x in OPERANDS]
    for op in "+-&":
        for x in OPERANDS:
            for y in OPERANDS:
                out.append("(%s)%s(%s)" % (x, op, y))
    trip = list(itertools.product(OPERANDS[:5], OPERANDS[:4], OPERANDS[:3]))
    for i, (x, y, z) in enumerate(trip):
        ops = ["+-", "-+", "-&", "&-", "+&"][i % 5]
        out.append("((%s)%s(%s))%s(%s)" % (x, ops[0], y, ops[1], z))
    return out


def family_docs():
    S = lambda v: ["S", v, None]
    inner = [["M", [], None], ["M", [["a", S(1)]], None],
             ["M", [["a", S(1)], ["b", S(2)]], None], ["M", [["b", S(2)]], None],
             ["M", [["a", S(2)]], None], ["L", [S(1)], None],
             ["L", [S(1), S(2)], None], S(1)]
    return [["M", [["a", x], ["b", y]], None] for x in inner for y in inner]


# hashes that take part of their keys from a YAML merge key (<<: *anchor)
MERGE_KEY_DOCS = [
    "b: &m\n  a: 1\n  b: 2\na:\n  <<: *m\n  x: 3\n",
    "b: &m\n  x: 1\na:\n  <<: *m\n  a: 1\n  b: 2\n",
    "a: &m\n  a: 1\nb:\n  <<: *m\n  b:\n    a: 1\n",
    "x: &m\n  a: 1\n  b: 2\na:\n  <<: *m\n  a: 2\nb:\n  <<: *m\n",
]


def snap(doc):
    return json.dumps(snapshot(doc), sort_keys=True)


def purity_case(doc, text, ptext, res, segs=None):
    """exists / required (/ optional when live) must not change doc.
    Returns True when the document was modified (caller must reload)."""
    from yamlpath.exceptions import YAMLPathException
    before = snap(doc)
    proc = real.processor(doc)
    path = real.ypath(ptext)
    entries = ["exists", "required"]
    live = False
    if segs is not None:
        ctx = mq.Ctx()
        try:
            exp = mq.evaluate(doc, segs, ctx)
            live = bool(exp) and not ctx.dead
        except (Unspecified, mq.ModelError):
            live = False
        if live:
            entries.append("optional")
    dirty = False
    for entry in entries:
        res.evaluations += 1
        try:
            with time_limit(8):
                if entry == "exists":
                    proc.exists(path)
                elif entry == "required":
                    for _ in proc.get_nodes(path, mustexist=True):
                        pass
                else:
                    for _ in proc.get_nodes(path, mustexist=False):
                        pass
        except YAMLPathException:
            pass
        except (CaseTimeout, MemoryError) as exc:
            # e.g. a query appending its results to the very list it reads:
            # the document grows until time or memory runs out
            res.fail({"clause": "query-leaves-document-unchanged",
                      "entry": entry, "outcome": "does-not-return"},
                     {"doc": text, "path": ptext, "entry": entry},
                     "%s while evaluating the query" % type(exc).__name__)
            return True
        except Exception as exc:
            res.label("crash(see C15):%s" % type(exc).__name__)
        after = snap(doc)
        if after != before:
            kind = ("collector" if "(" in ptext and ")" in ptext
                    and not "[" in ptext.split("(")[0][-1:] else "plain")
            op = "".join(c for c in "+-&" if (")%s(" % c) in ptext) or "none"
            res.fail({"clause": "query-leaves-document-unchanged",
                      "entry": entry, "collector-ops": op},
                     {"doc": text, "path": ptext, "entry": entry},
                     "before %s\nafter  %s" % (before[:600], after[:600]))
            dirty = True
            break
        res.label("pure:" + entry)
    if ")-(" in ptext or ")&(" in ptext or ")+(" in ptext:
        res.nontrivial()
        if len(res.samples) < 2 and ")-(" in ptext:
            res.samples.append({"doc": text, "path": ptext})
    return dirty


# -- creation ----------------------------------------------------------------
def tail_pattern(steps, value):
    if not steps:
        return cscalar(value)
    kind, ref = steps[0]
    sub = tail_pattern(steps[1:], value)
    if kind == "key":
        return ["M", [[cscalar(ref), sub]]]
    return ["L", [ANY] * ref + [sub]]


def pattern_match(pat, act):
    if pat == ANY:
        return True
    if not isinstance(pat, list) or not isinstance(act, list):
        return pat == act
    if pat and pat[0] in ("M", "L", "T") and len(pat) == 2 and \
            isinstance(pat[1], list):
        if not act or act[0] != pat[0] or len(act) != 2 or \
                len(act[1]) != len(pat[1]):
            return False
        if pat[0] == "M":
            return all(p[0] == a[0] and pattern_match(p[1], a[1])
                       for p, a in zip(pat[1], act[1]))
        if pat[0] == "L":
            return all(pattern_match(p, a) for p, a in zip(pat[1], act[1]))
        return pat[1] == act[1]
    return pat == act


def expected_after_creation(doc, prefix_node, steps, value):
    """Pattern for the whole document after creating `steps` below the
    container (or null) found at prefix_node (identity)."""
    def walk(node, is_target):
        if is_target:
            if node is None:
                return tail_pattern(steps, value)
            kind, ref = steps[0]
            sub = tail_pattern(steps[1:], value)
            if is_map(node):
                return ["M", [[cscalar(k), walk(v, False)]
                              for k, v in node.items()] + [[cscalar(ref), sub]]]
            return ["L", [walk(v, False) for v in node]
                    + [ANY] * (ref - len(node)) + [sub]]
        if is_map(node):
            return ["M", [[cscalar(k), walk(v, v is prefix_node and
                                            _once(v))]
                          for k, v in node.items()]]
        if is_seq(node):
            return ["L", [walk(v, v is prefix_node and _once(v))
                          for v in node]]
        if is_set(node):
            return ["T", [cscalar(m) for m in node]]
        return cscalar(node)

    state = {"done": False}

    def _once(_):
        return True

    return walk(doc, doc is prefix_node)


def creation_cases(text, res, dl):
    from yamlpath.exceptions import YAMLPathException
    doc_a, ok = gdocs.load(text)
    if not ok or doc_a is None:
        return
    for path, node, parent, ref in positions(doc_a):
        if any(step[0] == "m" for step in path):
            continue
        if parent is not None and node is not None and \
                not is_container(node) and not is_set(parent):
            _beneath_scalar(text, path, node, res)
            continue
        if is_set(node) and parent is not None:
            _set_member_creation(text, path, node, res)
            continue
        if not (is_map(node) or is_seq(node) or (node is None and parent
                                                 is not None)):
            continue
        if node is None and (is_set(parent)):
            continue
        # a null shared by identity with other nulls is fine: positions are
        # addressed by path, the pattern walks by position below
        base = []
        bad = False
        for step in path:
            if step[0] == "i":
                base.append(("index", step[1]))
            elif len(step) > 2 and str(step[2]) != "":
                base.append(("key", str(step[2])))
            else:
                bad = True
        if bad:
            continue
        firsts = []
        if is_map(node):
            firsts = [("key", "n")]
        elif is_seq(node):
            firsts = [("index", len(node) + d) for d in (0, 1, 2)]
        else:
            firsts = [("key", "n"), ("index", 0), ("index", 1)]
        rests = [[], [("key", "m")], [("index", 0)], [("index", 1)],
                 [("key", "m"), ("key", "k")], [("index", 1), ("key", "k")],
                 [("key", "m"), ("index", 2)]]
        for first in firsts:
            for rest in rests:
                steps = [first] + rest
                segs = base + steps
                ptext = gpaths.render(segs, "/" if len(rest) % 2 else ".")
                for entry in ("set", "get-default"):
                    _creation_one(text, path, steps, segs, ptext, entry, res)
        if dl.expired():
            res.truncated = True
            return


def _set_member_creation(text, path, node, res):
    """Naming a missing member of a Set (s.n = 'n') adds that member and
    changes nothing else - in particular the Set's other members stay."""
    from yamlpath.exceptions import YAMLPathException
    base = []
    for step in path:
        if step[0] == "i":
            base.append(("index", step[1]))
        elif len(step) > 2 and str(step[2]) != "":
            base.append(("key", str(step[2])))
        else:
            return
    for member in ("n", "n m", "n.m"):
        if any(str(m) == member for m in node):
            continue
        _set_member_creation_of(text, path, node, res, base, member)


def _set_member_creation_of(text, path, node, res, base, member):
    from yamlpath.exceptions import YAMLPathException
    for sep in (".", "/"):
        for entry in ("set", "get-default"):
            doc, _ = gdocs.load(text)
            target = _node_at(doc, path)
            want = canon(doc)
            ptext = gpaths.render(base + [("key", member)], sep)
            case = {"doc": text, "path": ptext, "entry": entry,
                    "steps": [["key", member]], "set-member": True}
            res.evaluations += 1
            try:
                proc = real.processor(doc)
                if entry == "set":
                    proc.set_value(real.ypath(ptext), member)
                else:
                    for _ in proc.get_nodes(real.ypath(ptext),
                                            mustexist=False,
                                            default_value=member):
                        pass
            except YAMLPathException as exc:
                res.fail({"clause": "creatable-path-is-created",
                          "where": "set-member", "entry": entry}, case,
                         str(exc))
                continue
            except Exception as exc:
                res.label("crash(see C15):%s" % type(exc).__name__)
                continue
            # expected: the same document with one more member in that Set
            def add_member(c, p):
                if not p:
                    return ["T", c[1] + [cscalar(member)]]
                step = p[0]
                if c[0] == "M":
                    return ["M", [[k, add_member(v, p[1:])
                                   if tuple(k) == tuple(step[1:]) else v]
                                  for k, v in c[1]]]
                return ["L", [add_member(v, p[1:]) if i == step[1] else v
                              for i, v in enumerate(c[1])]]
            expected = add_member(want, list(path))
            got = canon(doc)
            if medit.sorted_set_canon(got) != medit.sorted_set_canon(expected):
                res.fail({"clause": "only-the-missing-tail-is-added",
                          "where": "set-member", "entry": entry}, case,
                         "expected %s\ngot      %s" % (json.dumps(expected),
                                                       json.dumps(got)))
                continue
            res.nontrivial()
            res.label("created:set-member:" + entry)


def _beneath_scalar(text, path, node, res):
    """A path continuing beneath an existing (non-null) scalar cannot be
    created: YAMLPathException, and nothing changes."""
    from yamlpath.exceptions import YAMLPathException
    base = []
    for step in path:
        if step[0] == "i":
            base.append(("index", step[1]))
        elif len(step) > 2 and str(step[2]) != "":
            base.append(("key", str(step[2])))
        else:
            return
    for tail in ([("key", "n")], [("index", 0)], [("key", "n"), ("key", "m")]):
        ptext = gpaths.render(base + tail, ".")
        for entry in ("set", "get-default"):
            doc, _ = gdocs.load(text)
            before = snap(doc)
            proc = real.processor(doc)
            res.evaluations += 1
            case = {"doc": text, "path": ptext, "entry": entry,
                    "beneath": "scalar"}
            try:
                if entry == "set":
                    proc.set_value(real.ypath(ptext), 7)
                else:
                    list(proc.get_nodes(real.ypath(ptext), mustexist=False,
                                        default_value="zz"))
                outcome = "returned"
            except YAMLPathException:
                outcome = "refused"
            except Exception as exc:
                etype, frame, src = exc_site(exc)
                res.fail({"clause": "creation-no-crash", "exc": etype,
                          "frame": frame}, case, "%s: %s" % (etype, exc))
                continue
            if snap(doc) != before:
                res.fail({"clause": "existing-scalar-unchanged",
                          "scalar": "falsy" if not node else "truthy",
                          "outcome": outcome}, case,
                         "before %s\nafter  %s" % (before[:300],
                                                   snap(doc)[:300]))
                continue
            res.nontrivial()
            res.label("beneath-scalar:" + outcome)


def _distinct_new_containers(doc):
    """No container object may occupy two positions unless it is anchored
    (a creation must not alias the nodes it builds)."""
    seen = {}
    from vp.model.plain import anchor_of
    for path, node, parent, ref in positions(doc):
        if is_container(node) and anchor_of(node) is None:
            if id(node) in seen and seen[id(node)] != path[:len(seen[id(node)])]:
                return (seen[id(node)], path)
            seen.setdefault(id(node), path)
    return None


def _node_at(doc, path):
    from vp.model.plain import get_at
    return get_at(doc, path)


def _creation_one(text, prefix_path, steps, segs, ptext, entry, res):
    from yamlpath.exceptions import YAMLPathException
    value = 7 if entry == "set" else "zz"
    doc, _ = gdocs.load(text)
    prefix_node = _node_at(doc, prefix_path)
    # null prefixes are matched by position, so walk with a marker object
    pattern = _pattern_by_path(doc, prefix_path, steps, value)
    proc = real.processor(doc)
    case = {"doc": text, "path": ptext, "entry": entry}
    res.evaluations += 1
    pad = sum(1 for i, (k, r) in enumerate(steps) if k == "index" and (
        (i == 0 and is_seq(prefix_node) and r > len(prefix_node))
        or (i > 0 and r > 0) or (i == 0 and prefix_node is None and r > 0)))
    try:
        if entry == "set":
            proc.set_value(real.ypath(ptext), value)
            got = None
        else:
            got = list(proc.get_nodes(real.ypath(ptext), mustexist=False,
                                      default_value=value))
    except YAMLPathException as exc:
        res.fail({"clause": "creation-succeeds", "entry": entry,
                  "prefix": type(prefix_node).__name__}, case, "%s" % exc)
        return
    except Exception as exc:
        etype, frame, src = exc_site(exc)
        res.fail({"clause": "creation-no-crash", "exc": etype,
                  "frame": frame}, case, "%s: %s" % (etype, exc))
        return
    after = canon(doc)
    if not pattern_match(pattern, after):
        res.fail({"clause": "exactly-the-missing-tail", "entry": entry,
                  "prefix": type(prefix_node).__name__,
                  "padding": "yes" if pad else "no",
                  "tail": str(min(len(steps), 3))}, case,
                 "expected %s\ngot      %s" % (json.dumps(pattern),
                                               json.dumps(after)))
        return
    shared = _distinct_new_containers(doc)
    if shared is not None:
        res.fail({"clause": "created-nodes-are-distinct-objects",
                  "entry": entry}, case,
                 "one container object sits at %r and %r" % shared)
        return
    if got is not None and (len(got) != 1 or
                            cscalar(got[0].node) != cscalar(value)):
        res.fail({"clause": "optional-query-returns-the-new-node"}, case,
                 "results %r" % ([g.node for g in got],))
        return
    # the path now resolves to exactly one node equal to the value
    try:
        again = list(proc.get_nodes(real.ypath(ptext), mustexist=True))
    except YAMLPathException as exc:
        again = []
    if len(again) != 1 or cscalar(again[0].node) != cscalar(value):
        res.fail({"clause": "created-path-resolves", "entry": entry}, case,
                 "requery gave %r" % ([g.node for g in again],))
        return
    if len(steps) >= 2 or pad:
        res.nontrivial()
        if len(res.samples) < 2 and pad and len(steps) >= 2:
            res.samples.append(case)
    res.label("created:%s:tail%d%s" % (entry, len(steps),
                                       ":padded" if pad else ""))


def _pattern_by_path(doc, prefix_path, steps, value):
    def walk(node, path):
        if path == prefix_path:
            if node is None:
                return tail_pattern(steps, value)
            kind, ref = steps[0]
            sub = tail_pattern(steps[1:], value)
            if is_map(node):
                return ["M", [[cscalar(k), canon(v)]
                              for k, v in node.items()] + [[cscalar(ref), sub]]]
            return ["L", [canon(v) for v in node]
                    + [ANY] * (ref - len(node)) + [sub]]
        from vp.model.plain import refkey
        if is_map(node):
            return ["M", [[cscalar(k), walk(v, path + (refkey(node, k),))]
                          for k, v in node.items()]]
        if is_seq(node):
            return ["L", [walk(v, path + (("i", i),))
                          for i, v in enumerate(node)]]
        if is_set(node):
            return ["T", [cscalar(m) for m in node]]
        return cscalar(node)
    return walk(doc, ())


# -- planning ----------------------------------------------------------------
_VP = None


def vocab_paths():
    global _VP
    if _VP is None:
        _VP = []
        for n in (1, 2):
            for segs in gpaths.enum_paths_exact(n):
                segs = [tuple(s) for s in segs]
                _VP.append((segs, gpaths.render(segs, ".")))
    return _VP


def plan(tier, seed):
    shards = []
    nsh = 32
    for i in range(nsh):
        shards.append({"kind": "pure-vocab", "part": i, "parts": nsh,
                       "offset": seed,
                       "stride": 2 if tier == "quick" else 1})
    for i in range(nsh):
        shards.append({"kind": "pure-collect", "part": i, "parts": nsh,
                       "offset": seed,
                       "stride": 4 if tier == "quick" else 1})
    for i in range(nsh):
        shards.append({"kind": "create", "part": i, "parts": nsh,
                       "nmax": 3 if tier == "quick" else 4})
    return shards


def run_shard(shard):
    res = Result()
    dl = Deadline(shard.get("budget_s"))
    kind = shard["kind"]
    specs = gdocs.specs_upto(3)
    if kind == "pure-vocab":
        vps = vocab_paths()
        for di in range(shard["part"], len(specs), shard["parts"]):
            if dl.expired():
                res.truncated = True
                break
            text = gdocs.emit(specs[di])
            doc, ok = gdocs.load(text)
            if not ok or doc is None:
                continue
            for pi, (segs, ptext) in enumerate(vps):
                if (di + pi + shard["offset"]) % shard["stride"]:
                    continue
                if purity_case(doc, text, ptext, res, segs):
                    doc, _ = gdocs.load(text)
    elif kind == "pure-collect":
        cps = collector_paths()
        extra = c15.all_paths()
        fam = [gdocs.emit(s) for s in family_docs()] + MERGE_KEY_DOCS
        texts = fam + [gdocs.emit(s) for s in specs]
        for di in range(shard["part"], len(texts), shard["parts"]):
            if dl.expired():
                res.truncated = True
                break
            text = texts[di]
            doc, ok = gdocs.load(text)
            if not ok or doc is None:
                continue
            is_fam = di < len(fam)
            for pi, ptext in enumerate(cps):
                if not is_fam and (di + pi + shard["offset"]) % \
                        shard["stride"]:
                    continue
                if purity_case(doc, text, ptext, res):
                    doc, _ = gdocs.load(text)
            for pi, ptext in enumerate(extra):
                if (di * 7 + pi + shard["offset"]) % (
                        shard["stride"] * (3 if is_fam else 12)):
                    continue
                if purity_case(doc, text, ptext, res):
                    doc, _ = gdocs.load(text)
    else:
        cspecs = gdocs.specs_upto(shard["nmax"])
        for di in range(shard["part"], len(cspecs), shard["parts"]):
            if dl.expired():
                res.truncated = True
                break
            if shard["nmax"] > 3 and di >= len(specs) and di % 6:
                continue
            creation_cases(gdocs.emit(cspecs[di]), res, dl)
    return res


def replay(case):
    res = Result()
    if case.get("set-member"):
        creation_cases(case["doc"], res, Deadline(120))
        return [r for _, recs in res.failures.values() for r in recs
                if r["case"].get("set-member")]
    if case.get("entry") in ("set", "get-default"):
        doc, ok = gdocs.load(case["doc"])
        from yamlpath import YAMLPath
        from vp.model import pathast
        segs = pathast.from_parsed(YAMLPath(case["path"]).escaped)
        # longest existing prefix
        node = doc
        ppath = ()
        k = 0
        from vp.model.plain import refkey
        for seg in segs:
            try:
                if seg[0] == "index" and is_seq(node) and seg[1] < len(node):
                    nxt = node[seg[1]]
                    ppath += (("i", seg[1]),)
                elif seg[0] == "key" and is_map(node):
                    kk = [x for x in node if str(x) == seg[1]]
                    if not kk:
                        break
                    nxt = node[kk[0]]
                    ppath += (refkey(node, kk[0]),)
                else:
                    break
            except Exception:
                break
            node = nxt
            k += 1
            if node is None:
                break
        _creation_one(case["doc"], ppath, [tuple(s) for s in segs[k:]],
                      [tuple(s) for s in segs], case["path"], case["entry"],
                      res)
    else:
        doc, ok = gdocs.load(case["doc"])
        if not ok:
            raise RuntimeError("replay document does not load")
        purity_case(doc, case["doc"], case["path"], res)
    return [r for _, recs in res.failures.values() for r in recs]
