"""C08 - path text and parsed segments round-trip in both notations."""
import itertools
import json

from vp.runner import Result, Deadline, exc_site
from vp.model import pathast
from vp.gen import paths as gpaths

ID = "C08"
LEVEL = "exploration"

TEXTS = ["a", "b1", "a.b", "a/b", "a b", "a]b", "a[b", "a(b", "a)b", "a'b",
         'a"b', "a^b", "a$b", "a%b", "a\\b", "ab c.", "a ", " a", " ",
         # a literal * (only expressible demarcated) and a leading &
         "a*b", "*", "**", "a*", "*a.b", "&a", "&", "a*[b", "a*'b)",
         "a\\\\b",
         # a leading + or - (a Collector operator when it follows a Collector)
         "-b", "+b", "-"]
OPERANDS = ["a", "b1", "a b", "a.b", "a/b", "a]b", "a'b", "a=b", "a!b",
            "a<b", "a~b", "a%b", "a\\b", "'a", 'a"', "a ", "it's \"x\""]
S = "search"
KW = "keyword"


def build_vocab():
    voc = [("key", t) for t in TEXTS]
    voc += [("index", 0), ("index", 5), ("index", -1)]
    voc += [("slice", 0, 2), ("slice", -2, -1)]
    voc += [("anchor", "x"), ("anchor", "anc1")]
    voc += [("all",), ("traverse",)]
    methods = ["EQUALS", "STARTS_WITH", "ENDS_WITH", "CONTAINS", "LESS_THAN",
               "GREATER_THAN", "LESS_THAN_OR_EQUAL", "GREATER_THAN_OR_EQUAL",
               "REGEX"]
    i = 0
    for m in methods:
        for inv in (False, True):
            for attr in (".", "a", OPERANDS[(i * 3) % len(OPERANDS)]):
                for term in ("a", OPERANDS[(i * 5 + 1) % len(OPERANDS)], ""):
                    i += 1
                    if m == "REGEX" and term == "":
                        continue
                    voc.append((S, inv, m, attr, term))
    voc += [(S, False, "REGEX", ".", "^a/b$"), (S, False, "REGEX", "a", "x_y"),
            (S, True, "REGEX", ".", "a b"),
            # expressions which start and end with a quote: the text of a
            # regular expression is verbatim, the quotes belong to it
            (S, False, "REGEX", ".", "'x'"), (S, False, "REGEX", "a", '"[^"]*"'),
            (S, True, "REGEX", ".", "'")]
    voc += [(KW, False, "HAS_CHILD", ["a"]), (KW, True, "HAS_CHILD", ["a"]),
            (KW, False, "HAS_CHILD", ["&x"]),
            (KW, False, "MAX", []), (KW, False, "MAX", ["a"]),
            (KW, True, "MIN", ["b1"]), (KW, False, "MIN", []),
            (KW, False, "NAME", []), (KW, False, "PARENT", []),
            (KW, False, "PARENT", ["2"]), (KW, False, "UNIQUE", ["a"]),
            (KW, True, "UNIQUE", []), (KW, False, "DISTINCT", ["a"])]
    voc += [("collector", "NONE", [("key", "a")]),
            ("collector", "NONE", [("key", "a"), ("key", "b1")]),
            ("collector", "NONE", [("key", "a"), ("index", 0)]),
            ("collector", "NONE", [("all",), ("key", "a b")])]
    return voc


VOCAB = build_vocab()
FOLLOW_COLLECTORS = [("collector", "ADDITION", [("key", "b1")]),
                     ("collector", "SUBTRACTION", [("key", "a"), ("all",)]),
                     ("collector", "INTERSECTION", [("index", 1)])]

RULE = ("E1: every sequence of <= 2 segments from a %d-item vocabulary "
        "covering every segment kind (keys and search operands carrying each "
        "escapable character, indexes, slices, anchors, all 9 search "
        "operators x inversion, 7 keywords, collectors with +,-,&), written "
        "by an independent writer in dot and slash notation in 3 escaping "
        "styles (backslash, single-quoted, double-quoted where the syntax "
        "allows), then (1) parsed and compared field by field with the AST, "
        "(2) str() re-parsed and compared, str() is a fixed point, also "
        "after switching the separator, (3) equality of two parsed paths "
        "iff their ASTs are equal, (4) append-then-pop restores the path. "
        "E2: Hypothesis sequences of <= 6 segments with random text over "
        "letters, digits and the escapable set. Non-trivial = >= 1 segment "
        "needing an escape/quote or a search/keyword/collector segment; "
        "distinct by (AST, notation, style)." % len(VOCAB))
ASSUMPTIONS = ["exclusions taken from the notation's own definition: '*' "
               "inside key text, a leading '&' or '/' in a dot-notation key, "
               "regex terms containing every candidate delimiter; quoting is "
               "only used for text without quotes, brackets, parentheses or "
               "backslashes (the syntax nests those inside quotes)"]
EXHAUSTIVE = {"quick": True, "thorough": True}
SHARD_BUDGET_S = {"quick": 100, "thorough": 1800}
HARD_TIMEOUT_S = {"quick": 600, "thorough": 3600}


def needs_escape(segs):
    for s in segs:
        if s[0] in ("search", "keyword", "collector"):
            return True
        if s[0] == "key" and any(c in s[1] for c in "./ []()'\"^$%\\"):
            return True
    return False


def shape_of(segs, sep=None, field=None):
    """Small class of an AST used to keep failure signatures narrow.  When
    the differing field is known, only that field's text is classified (a
    peculiar attribute must not re-label a failure of the term)."""
    shapes = set()
    for s in segs:
        if s[0] == "collector":
            shapes.add("has-collector")
            shapes.update(x for x in shape_of(s[2], sep, field).split("+")
                          if x != "plain")
        if s[0] == "search" and field in (None, "search.term") and \
                s[2] != "REGEX" and s[4] and \
                s[4][0] in "'\"" and s[4][-1] == s[4][0]:
            shapes.add("term-wrapped-in-same-quote")
        if s[0] == "key" and ("\\/" in s[1] or "\\." in s[1]):
            shapes.add("backslash-before-a-separator")
        if s[0] == "search":
            texts = {None: (s[3], s[4]), "search.term": (s[4],),
                     "search.attr": (s[3],)}.get(field, (s[3], s[4]))
            if any("\\/" in t or "\\." in t for t in texts):
                shapes.add("backslash-before-a-separator")
    return "+".join(sorted(shapes)) or "plain"


def norm(segs):
    """Normalise an AST for comparison (lists vs tuples)."""
    out = []
    for s in segs:
        if s[0] == "collector":
            out.append(("collector", s[1], norm(s[2])))
        elif s[0] == "keyword":
            out.append(("keyword", s[1], s[2], list(s[3])))
        else:
            out.append(tuple(s))
    return out


def render(segs, sep, style):
    from vp.props.c02 import write_param
    segs2 = []
    for s in segs:
        if s[0] == "keyword":
            s = s[:3] + ([write_param(p) for p in s[3]],)
        segs2.append(s)
    return pathast.write_path(segs2, sep, style)


def check_ast(segs, sep, style, res, source="grid"):
    from yamlpath import YAMLPath
    from yamlpath.enums import PathSeparators
    from yamlpath.exceptions import YAMLPathException
    text = render(segs, sep, style)
    case = {"ast": gpaths.to_json(_json_ast(segs)), "sep": sep,
            "style": style, "text": text}
    res.evaluations += 1
    kinds = gpaths.kinds(segs)
    want = norm(segs)
    nontrivial = needs_escape(segs)
    try:
        p = YAMLPath(text)
        got = norm(pathast.from_path(p))
    except YAMLPathException as exc:
        res.fail({"clause": "1-parse-accepts-written-path", "segs": kinds,
                  "style": style}, case, "%s" % exc)
        return
    except Exception as exc:
        etype, frame, src = exc_site(exc)
        res.fail({"clause": "1-parse-crash", "exc": etype, "frame": frame},
                 case, "%s: %s" % (etype, exc))
        return
    if got != want:
        res.fail({"clause": "1-parse-gives-the-written-segments",
                  "field": _first_diff(want, got),
                  "shape": shape_of(_diff_seg(want, got),
                                    field=_first_diff(want, got))}, case,
                 "text %r\nwant %r\ngot  %r" % (text, want, got))
        return
    # (2) canonical string re-parses to the same segments and is a fixed point
    try:
        s1 = str(p)
        p2 = YAMLPath(s1)
        got2 = norm(pathast.from_path(p2))
        s2 = str(p2)
    except Exception as exc:
        res.fail({"clause": "2-canonical-string-reparses", "segs": kinds,
                  "why": type(exc).__name__}, case, "%s" % exc)
        return
    if got2 != want:
        res.fail({"clause": "2-canonical-string-reparses",
                  "why": "different-segments",
                  "field": _first_diff(want, got2),
                  "shape": shape_of(_diff_seg(want, got2),
                                    field=_first_diff(want, got2))}, case,
                 "str() = %r\nwant %r\ngot  %r" % (s1, want, got2))
        return
    if s2 != s1:
        res.fail({"clause": "2-canonical-string-fixed-point", "segs": kinds},
                 case, "str() = %r then %r" % (s1, s2))
        return
    # ... also after forcing the other separator
    try:
        p3 = YAMLPath(text)
        other = (PathSeparators.DOT if p3.separator is PathSeparators.FSLASH
                 else PathSeparators.FSLASH)
        p3.separator = other
        s3 = str(p3)
        p4 = YAMLPath(s3)
        got4 = norm(pathast.from_path(p4))
        s4 = str(p4)
    except Exception as exc:
        res.fail({"clause": "2-other-separator-reparses", "segs": kinds,
                  "why": type(exc).__name__}, case, "%s" % exc)
        return
    if got4 != want or s4 != s3:
        res.fail({"clause": "2-other-separator-reparses",
                  "why": "different-segments" if got4 != want
                  else "not-a-fixed-point",
                  "shape": shape_of(_diff_seg(want, got4))}, case,
                 "text %r -> other separator str() = %r\nwant %r\ngot  %r"
                 % (text, s3, want, got4))
        return
    # equality ignores notation
    if not (YAMLPath(text) == YAMLPath(s3)) or YAMLPath(text) != YAMLPath(s1):
        res.fail({"clause": "3-equal-across-notations", "segs": kinds}, case,
                 "%r vs %r" % (text, s3))
        return
    # (4) append then pop restores
    try:
        for extra in ("zz", "[3]", "[&x]", "[a=b]", "*", "q\\.r\\/s",
                      # spellings that differ from their canonical rendering
                      "'dotted.child.key'", '"q r"', '[name="User One"]',
                      "[!name=admin]", "'a*b'"):
            q = YAMLPath(text)
            before = str(q)
            fresh = YAMLPath(text)
            # equality is a function of the current segments: asked before,
            # between and after the mutations of one object
            if not q == fresh:
                res.fail({"clause": "3-equal-to-its-own-text", "segs": kinds},
                         case, "%r" % text)
                return
            q.append(extra)
            if q == fresh or not q == YAMLPath(str(q)):
                res.fail({"clause": "4-equality-follows-append", "segs": kinds,
                          "appended": extra}, case,
                         "after append %r: equals the old path %r, equals its "
                         "own text %r" % (str(q), q == fresh,
                                          q == YAMLPath(str(q))))
                return
            q.pop()
            if str(q) != before or q != YAMLPath(text) or \
                    norm(pathast.from_path(q)) != want:
                res.fail({"clause": "4-append-pop-restores", "segs": kinds,
                          "appended": extra}, case,
                         "before %r after %r" % (before, str(q)))
                return
    except YAMLPathException as exc:
        res.fail({"clause": "4-append-pop-restores", "segs": kinds,
                  "appended": "raises"}, case, "%s" % exc)
        return
    if nontrivial:
        res.nontrivial()
        if len(res.samples) < 3 and len(segs) >= 2:
            res.samples.append({"text": text, "canonical": s1, "other": s3})
    res.label("ok:" + kinds.split("-")[0])


def _json_ast(segs):
    out = []
    for s in segs:
        if s[0] == "collector":
            out.append(("collector", s[1], _json_ast(s[2])))
        else:
            out.append(s)
    return out


def _diff_seg(want, got):
    """The first expected segment that the parse got wrong."""
    for w, g in zip(want, got):
        if w != g:
            return [w]
    return list(want[len(got):len(got) + 1]) or list(want[-1:])


def _first_diff(want, got):
    if len(want) != len(got):
        return "segment-count"
    for w, g in zip(want, got):
        if w != g:
            if w[0] != g[0]:
                return "kind:%s->%s" % (w[0], g[0])
            for i, (a, b) in enumerate(zip(w, g)):
                if a != b:
                    names = {"search": ["", "inverted", "method", "attribute",
                                        "term"],
                             "keyword": ["", "inverted", "keyword", "params"],
                             "key": ["", "text"], "collector":
                                 ["", "operator", "inner"]}
                    return "%s.%s" % (w[0], names.get(w[0], [""] * 9)[i]
                                      if i < len(names.get(w[0], [])) else i)
    return "?"


def check_inequality(a, b, res):
    """(3) two parsed paths compare equal exactly when the ASTs are equal."""
    from yamlpath import YAMLPath
    res.evaluations += 1
    ta, tb = render(a, ".", 0), render(b, "/", 0)
    try:
        eq = YAMLPath(ta) == YAMLPath(tb)
    except Exception as exc:
        res.label("inequality:raises:" + type(exc).__name__)
        return
    if eq != (norm(a) == norm(b)):
        res.fail({"clause": "3-equal-iff-same-segments",
                  "shape": shape_of(list(a) + list(b))},
                 {"a": gpaths.to_json(_json_ast(a)),
                  "b": gpaths.to_json(_json_ast(b)), "ta": ta, "tb": tb},
                 "%r == %r -> %r" % (ta, tb, eq))
    res.label("inequality-checked")


# pairs of different paths that are easy to confuse: a special character
# inside one key (an escape in the text) against the same character acting
# as syntax - bare and inside Collectors
CONFUSABLE = []
for _one, _two in [([("key", "a.b1")], [("key", "a"), ("key", "b1")]),
                   ([("key", "a/b")], [("key", "a"), ("key", "b")]),
                   ([("key", "a b")], [("key", "ab")]),
                   ([("key", "a[0]")], [("key", "a"), ("index", 0)]),
                   ([("key", "&x")], [("anchor", "x")])]:
    CONFUSABLE.append((_one, _two))
    CONFUSABLE.append(([("collector", "NONE", _one)],
                       [("collector", "NONE", _two)]))
    CONFUSABLE.append(([("key", "z"), ("collector", "NONE", _one)],
                       [("key", "z"), ("collector", "NONE", _two)]))
    CONFUSABLE.append(([("collector", "NONE", [("key", "q")]),
                        ("collector", "SUBTRACTION", _one)],
                       [("collector", "NONE", [("key", "q")]),
                        ("collector", "SUBTRACTION", _two)]))


def check_confusable(res):
    from yamlpath import YAMLPath
    for a, b in CONFUSABLE:
        for sa in "./":
            for sb in "./":
                for x, y, same in ((a, b, False), (a, a, True), (b, b, True)):
                    res.evaluations += 1
                    tx, ty = render(x, sa, 0), render(y, sb, 0)
                    try:
                        eq = YAMLPath(tx) == YAMLPath(ty)
                        ne = YAMLPath(tx) != YAMLPath(ty)
                    except Exception as exc:
                        res.label("confusable:raises:" + type(exc).__name__)
                        continue
                    if eq != same or ne == same:
                        res.fail({"clause": "3-equal-iff-same-segments",
                                  "shape": "confusable:" + shape_of(
                                      list(x) + list(y))},
                                 {"a": gpaths.to_json(_json_ast(x)),
                                  "b": gpaths.to_json(_json_ast(y)),
                                  "ta": tx, "tb": ty, "confusable": True},
                                 "%r == %r -> %r, != -> %r" % (tx, ty, eq, ne))
                        continue
                    res.nontrivial(key=["confusable", tx, ty], sample=False)
                    res.label("confusable-pair-checked")


def valid_seq(combo):
    for i, s in enumerate(combo):
        if s[0] == "traverse" and i + 1 < len(combo) and \
                combo[i + 1][0] == "traverse":
            return False
    return True


def plan(tier, seed):
    shards = []
    n = len(VOCAB)
    nsh = 32
    for i in range(nsh):
        shards.append({"kind": "grid", "part": i, "parts": nsh})
    nh, per = (8, 1500) if tier == "quick" else (32, 20000)
    for i in range(nh):
        shards.append({"kind": "hyp", "seed": seed * 1000 + i,
                       "examples": per})
    return shards


def run_shard(shard):
    res = Result()
    dl = Deadline(shard.get("budget_s"))
    if shard["kind"] == "grid":
        if shard["part"] == 0:
            check_confusable(res)
        idx = 0
        singles = [[v] for v in VOCAB]
        pairs = ([a, b] for a in VOCAB for b in VOCAB)
        coll = [[c, f] for c in VOCAB if c[0] == "collector"
                for f in FOLLOW_COLLECTORS]
        prev = None
        for segs in itertools.chain(singles, coll, pairs):
            idx += 1
            if idx % shard["parts"] != shard["part"]:
                continue
            if not valid_seq(segs):
                continue
            if dl.expired():
                res.truncated = True
                break
            sep = "./"[idx % 2]
            style = (idx // 2) % 5
            check_ast(segs, sep, style, res)
            if len(segs) == 1 or idx % 7 == 0:
                check_ast(segs, "./"[(idx + 1) % 2], (style + 1) % 5, res)
            if prev is not None and idx % 5 == 0:
                check_inequality(prev, segs, res)
                check_inequality(segs, segs, res)
            prev = segs
    else:
        _run_hyp(shard, res, dl)
    return res


def _run_hyp(shard, res, dl):
    from hypothesis import strategies as st
    from vp.hyp import run_given
    alpha = "ab1XyZ09_-" + "./ []()'\"^$%\\" + "=!<>~,:+&"
    text = st.text(alphabet=alpha, min_size=1, max_size=6).filter(
        lambda t: "*" not in t)
    keytext = text.filter(lambda t: t[0] not in "&/"
                          and not t.strip().lstrip("-").isdigit())
    methods = st.sampled_from(["EQUALS", "STARTS_WITH", "ENDS_WITH",
                               "CONTAINS", "LESS_THAN", "GREATER_THAN",
                               "LESS_THAN_OR_EQUAL",
                               "GREATER_THAN_OR_EQUAL"])
    operand = text
    seg = st.one_of(
        keytext.map(lambda t: ("key", t)),
        st.integers(-9, 99).map(lambda i: ("index", i)),
        st.tuples(st.integers(0, 9), st.integers(0, 9)).map(
            lambda t: ("slice", t[0], t[1])),
        st.sampled_from(["x", "anc1", "A_b"]).map(lambda a: ("anchor", a)),
        st.just(("all",)), st.just(("traverse",)),
        st.tuples(st.booleans(), methods,
                  st.one_of(st.just("."), operand), operand).map(
            lambda t: (S, t[0], t[1], t[2], t[3])),
        st.tuples(st.booleans(), operand,
                  st.text(alphabet="ab1 .^$[]()\\d+*_/'\"", min_size=1,
                          max_size=6).filter(lambda t: t.strip() == t)).map(
            lambda t: (S, t[0], "REGEX", ".", t[2])),
        st.sampled_from([v for v in VOCAB if v[0] == KW]),
    )
    strat = st.tuples(st.lists(seg, min_size=1, max_size=6),
                      st.sampled_from("./"), st.integers(0, 4))

    def body(value):
        segs, sep, style = value
        if not valid_seq(segs):
            return
        for s in segs:
            if s[0] == S and s[2] == "REGEX":
                if all(d in s[4] for d in pathast.REGEX_DELIMS):
                    return
        before = res.nt_count
        check_ast(segs, sep, style, res, "hyp")
        if res.nt_count > before:
            res.nt_count = before
            res.nontrivial(key=[gpaths.to_json(segs), sep, style],
                           sample=False)
        res.label("hyp:len%d" % len(segs))

    run_given(strat, body, shard["seed"], shard["examples"], dl)


def _from_json(ast):
    out = []
    for s in ast:
        if s[0] == "collector":
            out.append(("collector", s[1], _from_json(s[2])))
        elif s[0] == "keyword":
            out.append(("keyword", s[1], s[2], list(s[3])))
        else:
            out.append(tuple(s))
    return out


def replay(case):
    res = Result()
    if "ast" in case:
        check_ast(_from_json(case["ast"]), case["sep"], case["style"], res,
                  "replay")
    elif case.get("confusable"):
        check_confusable(res)
    else:
        check_inequality(_from_json(case["a"]), _from_json(case["b"]), res)
    return [r for _, recs in res.failures.values() for r in recs]
