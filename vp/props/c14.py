"""C14 - parsing any text as a YAML Path ends in segments or a YAML Path error.

E1: every string of length <= L over the 26 syntactically significant
symbols, E2: Hypothesis text (arbitrary Unicode + mutations of valid paths).
Oracle: each of .escaped/.unescaped/str()/len()/keyword parameters either
returns well-typed values or raises YAMLPathException; a per-batch alarm
turns non-termination into a violation.
"""
import itertools
import signal
from collections import deque

from vp.runner import Result, Deadline, exc_site

ID = "C14"
LEVEL = "exploration"
ALPHABET = "./[]()'\"\\&*!=~<>^$%,:+- ab1"
# -- slot filling: every syntactic position x treacherous payloads -----------
TEMPLATES = [
    "@", "a.@", "/@", "/a/@", "a[@]", "a[@:1]", "a[1:@]", "a[@:@]", "&@",
    "a[&@]", "a[@=1]", "a[b=@]", "a[b@1]", "a[@(b)]", "a[!@(b)]", "a[@()]",
    "a[max(@)]", "a[parent(@)]", "a[has_child(@,@)]", "a[b=~/@/]",
    "a[b=~@x@]", "(@)", "(a)+(@)", "a(@)", "a[@", "a[b=@", "@[0]", "'@'",
    "\"@\"", "a\\@", "[@]", "[@(", "a[.@a]", "a[@.=1]", "a[b=1]@",
    "a.@.b", "/a[@]/b", "a[b='@']", "a[@(", "a[b @ c]", "a.b[@][@]",
]
PAYLOADS = [
    "{", "}", "{}", "{0}", "{x}", "{0!r}", "{:>9}", "%s", "%d", "%", "%(x)s",
    "\u00b2", "\u2460", "\u0663", "\uff11", "-\u2081", "\U0001d7d9",
    "\u2167", "\u00bd", "1_0", "0x1", "1e3", " 1 ", "+1", "--1", "-", "+",
    "9" * 5000, "-" + "9" * 5000, "1" * 4301, "\t", "\n", "\r", "\x00",
    "\u2028", "\u00e9", "\ud800", "\U0010ffff", "\\", "\\\\", "''",
    '""', " ", "", "None", "nan", "inf", "1.5", "1j", "True", "a" * 3000,
]


RULE = ("E1: every string of length <= L (L=5 quick, 6 thorough; quick "
        "enumerates L=5 completely) over the alphabet %r, each parsed (a) "
        "with the inferred separator, (b) with the opposite separator forced "
        "through the .separator setter before the escaped parse, (c) with "
        "the opposite separator given to the constructor; for each: "
        ".escaped, .unescaped, str(), len(), and .parameters of every keyword "
        "segment. E2: Hypothesis text() incl. arbitrary Unicode up to 64 "
        "chars and single-character mutations of a corpus of valid paths. "
        "E3: %d templates marking every syntactic position (key, index, "
        "slice bound, anchor, attribute, operator, term, keyword name and "
        "parameter, regex body/delimiter, collector) x %d payloads (format "
        "braces and percent directives, non-ASCII digits, numbers int() "
        "rejects or that exceed the int-to-str limit, control characters, a "
        "lone surrogate). E4: atheris (libFuzzer) coverage-guided campaigns over "
        "(text) with the yamlpath package instrumented, a token dictionary, "
        "half of them from an empty corpus and half seeded with valid paths; "
        "each corpus unit (an input that added coverage) counts as one "
        "distinct non-trivial case. "
        "A case is non-trivial when the text has >= 2 characters of which "
        ">= 1 is syntactically significant (not a letter/digit); enumerated "
        "strings are distinct by construction, random ones are counted by "
        "hash." % (ALPHABET, len(TEMPLATES), len(PAYLOADS)))
ASSUMPTIONS = [
    "non-termination is detected by a 20 s alarm per batch of 2000 inputs "
    "(the parser is a single for-loop over the characters)",
    "CPython and the ruamel.yaml import are trusted",
]
EXHAUSTIVE = {"quick": True, "thorough": True}
SHARD_BUDGET_S = {"quick": 150, "thorough": 3000}
HARD_TIMEOUT_S = {"quick": 600, "thorough": 7200}

SIGNIFICANT = set(ALPHABET) - set("ab1")

VALID_PATHS = [
    "a.b.c", "/a/b/c", "a[0]", "a[1:2]", "a[-1]", "&anc", "/&anc/b", "a[&x]",
    "a[b=c]", "a[b!=c]", "a[!b=c]", "a[.=c]", "a[b^c]", "a[b$c]", "a[b%c]",
    "a[b>1]", "a[b<1]", "a[b>=1]", "a[b<=1]", "a[b=~/^c$/]", "a[b =~ _c_]",
    "a.*", "a.**", "/**/b", "a.b*", "a.*b", "a.b*c", "a.b*c*d", "a[.=~/x/].b",
    "(a)+(b)", "(a.b)-(c)", "(a)&(b)", "((a)+(b))-(c)", "a(b)", "/a(b)+(c)",
    "a[has_child(b)]", "a[!has_child(b)]", "a[max(b)]", "a[min()]",
    "a[parent()]", "a[parent(2)]", "a[name()]", "a[unique(b)]",
    "a[distinct(b)]", "a[max('b c', \"d\")]", "'a.b'.c", "\"a/b\".c",
    "a\\.b.c", "/a\\/b/c", "a\\ b", "a['b']", "a[\"b.c\"=1]", "a[b='c d']",
    "a[b=\"c\"]", "\\&a", "a.1", "/1/2", "a[.!=]", "a[.=]", "*[a=1]",
    "**[.^a]", "a[b==1]", "a.b\\[0\\]", "a.b\\(c\\)", "a\\\\b", "a[.%'(']",
]


def slot_texts():
    out = []
    for tmpl in TEMPLATES:
        for pay in PAYLOADS:
            out.append(tmpl.replace("@", pay))
    return out


class _Hang(Exception):
    pass


def _alarm(signum, frame):
    raise _Hang()


def _exercise(path, notes):
    """Touch every lazily parsed view; returns number of escaped segments."""
    from yamlpath.enums import PathSegmentTypes
    from yamlpath.path import SearchKeywordTerms
    esc = path.escaped
    if not isinstance(esc, deque):
        raise AssertionError("escaped is %s" % type(esc).__name__)
    une = path.unescaped
    if not isinstance(une, deque):
        raise AssertionError("unescaped is %s" % type(une).__name__)
    text = str(path)
    if not isinstance(text, str):
        raise AssertionError("str() gave %s" % type(text).__name__)
    if len(path) != len(esc):
        raise AssertionError("len() disagrees with escaped")
    for seg in esc:
        if not (isinstance(seg, tuple) and len(seg) == 2
                and isinstance(seg[0], PathSegmentTypes)):
            raise AssertionError("ill-typed segment %r" % (seg,))
        if seg[0] is PathSegmentTypes.KEYWORD_SEARCH:
            if not isinstance(seg[1], SearchKeywordTerms):
                # e.g. "[min(])": text the parser accepts although a pending
                # "]" was never seen.  The statement only promises "a segment
                # list", so this is labelled, not flagged.
                notes.append("keyword-segment-without-terms")
                continue
            try:
                params = seg[1].parameters
            except ValueError:
                # documented + unit-tested behaviour of that accessor
                # (tests/test_path_searchkeywordterms.py) - outside C14.
                notes.append("keyword-parameters-ValueError")
                continue
            if not isinstance(params, list):
                raise AssertionError("parameters is not a list")
            str(seg[1])
    return len(esc)


def check_text(text, res, source):
    """Run all three separator settings on one text; record failures."""
    from yamlpath import YAMLPath
    from yamlpath.enums import PathSeparators
    from yamlpath.exceptions import YAMLPathException
    outcomes = []
    for mode in ("auto", "setter", "ctor"):
        res.evaluations += 1
        try:
            if mode == "auto":
                path = YAMLPath(text)
            else:
                inferred = PathSeparators.infer_separator(text)
                other = (PathSeparators.DOT
                         if inferred is PathSeparators.FSLASH
                         else PathSeparators.FSLASH)
                if mode == "ctor":
                    path = YAMLPath(text, other)
                else:
                    path = YAMLPath(text)
                    path.separator = other
            notes = []
            n = _exercise(path, notes)
            for note in notes:
                res.label(note)
            outcomes.append("segs")
            res.label("%s:segments" % mode)
            if n == 0:
                res.label("%s:empty" % mode)
        except YAMLPathException:
            outcomes.append("ype")
            res.label("%s:YAMLPathException" % mode)
        except _Hang:
            raise
        except RecursionError as exc:
            _record(res, text, mode, exc, source)
        except Exception as exc:  # the violation
            _record(res, text, mode, exc, source)
    return outcomes


def _record(res, text, mode, exc, source):
    etype, frame, src = exc_site(exc)
    sig = {"clause": "only-yamlpath-exceptions", "exc": etype, "frame": frame,
           "at": src[:60]}
    res.fail(sig, {"text": text, "mode": mode},
             "%s: %s (via %s)" % (etype, exc, source))


def nontrivial(text):
    return len(text) >= 2 and any(c in SIGNIFICANT for c in text)


def _run_batch(batch, res, source, hashed):
    signal.signal(signal.SIGALRM, _alarm)
    i = 0
    while i < len(batch):
        signal.alarm(20)
        try:
            while i < len(batch):
                text = batch[i]
                check_text(text, res, source)
                if nontrivial(text):
                    if hashed:
                        res.nontrivial(key=text, sample=False)
                    else:
                        res.nt_count += 1
                    if len(res.samples) < 3 and len(text) >= 4:
                        res.samples.append({"text": text})
                i += 1
        except _Hang:
            res.fail({"clause": "terminates", "exc": "timeout",
                      "frame": "yamlpath.py:_parse_path"},
                     {"text": batch[i], "mode": "any"},
                     "no result within 20 s")
            i += 1
        finally:
            signal.alarm(0)


def plan(tier, seed):
    maxlen = 5 if tier == "quick" else 6
    shards = [{"kind": "enum-short", "maxlen": 2}]
    for a in ALPHABET:
        for b in ALPHABET:
            shards.append({"kind": "enum", "prefix": a + b, "maxlen": maxlen})
    for i in range(4):
        shards.append({"kind": "slots", "part": i, "parts": 4})
    # coverage-guided campaigns (atheris / libFuzzer), one process per shard
    nfz, runs = (8, 12000) if tier == "quick" else (16, 1500000)
    for i in range(nfz):
        shards.append({"kind": "atheris", "seed": seed * 100 + i + 1,
                       "runs": runs, "empty_corpus": i % 2 == 1})
    nhyp = 16 if tier == "quick" else 64
    per = 6000 if tier == "quick" else 40000
    for i in range(nhyp):
        shards.append({"kind": "hyp", "seed": seed * 1000 + i,
                       "examples": per})
    return shards


def run_shard(shard):
    res = Result()
    dl = Deadline(shard.get("budget_s"))
    if shard["kind"] == "enum-short":
        batch = [""]
        for n in range(1, shard["maxlen"] + 1):
            batch.extend("".join(t) for t in
                         itertools.product(ALPHABET, repeat=n))
        _run_batch(batch, res, "enum", False)
    elif shard["kind"] == "enum":
        prefix = shard["prefix"]
        for n in range(1, shard["maxlen"] - len(prefix) + 1):
            batch = []
            for tail in itertools.product(ALPHABET, repeat=n):
                batch.append(prefix + "".join(tail))
                if len(batch) >= 2000:
                    _run_batch(batch, res, "enum", False)
                    batch = []
                    if dl.expired():
                        res.truncated = True
                        return res
            if batch:
                _run_batch(batch, res, "enum", False)
    elif shard["kind"] == "atheris":
        _run_atheris(shard, res, dl)
    elif shard["kind"] == "slots":
        texts = slot_texts()[shard["part"]::shard["parts"]]
        _run_batch(texts, res, "slots", True)
        res.label("slots", len(texts))
    else:
        _run_hyp(shard, res, dl)
    return res


FUZZ_DICT = ["[", "]", "(", ")", "'", '"', "\\\\", "&", "*", "**", "!", "=",
             "==", "!=", "<", ">", "<=", ">=", "=~", "^", "$", "%", ".", "/",
             ",", ":", "+", "-", " ", "has_child(", "name(", "max(", "min(",
             "parent(", "unique(", "distinct(", ")]", "[.", "[!", "(/", ")+(",
             ")-(", ")&(", "[&", "[0]", "[1:2]", "{}", "\\\\.", "\\\\/"]


def _run_atheris(shard, res, dl):
    """One libFuzzer campaign in a child process; its findings file lists the
    smallest failing input per signature (the child never aborts on one)."""
    import json
    import os
    import shutil
    import subprocess
    import sys
    import tempfile
    import importlib.util
    if importlib.util.find_spec("atheris") is None:
        # MANIFEST.setup_cmd installs atheris into .deps/ ("|| true"): where
        # that did not happen the campaign is skipped, not failed - the other
        # engines of this check do not depend on it
        res.label("atheris:unavailable")
        return
    here = os.path.dirname(os.path.dirname(os.path.abspath(__file__)))
    target = os.path.join(here, "fuzz", "target_c14.py")
    tmp = tempfile.mkdtemp(prefix="vp-c14-fuzz-")
    try:
        corpus = os.path.join(tmp, "corpus")
        os.mkdir(corpus)
        if not shard.get("empty_corpus"):
            for i, text in enumerate(VALID_PATHS):
                with open(os.path.join(corpus, "seed%03d" % i), "wb") as fh:
                    fh.write(b"\x00" + text.encode("ascii", "replace"))
        dictfile = os.path.join(tmp, "dict")
        with open(dictfile, "w") as fh:
            for tok in FUZZ_DICT:
                fh.write('"%s"\n' % tok.replace('"', '\\"'))
        findings = os.path.join(tmp, "findings.json")
        budget = int(shard.get("budget_s") or 600)
        cmd = [sys.executable, target, findings, "-runs=%d" % shard["runs"],
               "-seed=%d" % shard["seed"], "-max_len=64",
               "-dict=" + dictfile, "-print_final_stats=1",
               "-max_total_time=%d" % max(budget - 20, 10),
               "-rss_limit_mb=2048", "-timeout=25", corpus]
        try:
            proc = subprocess.run(cmd, stdin=subprocess.DEVNULL,
                                  stdout=subprocess.PIPE,
                                  stderr=subprocess.STDOUT, text=True,
                                  errors="replace", timeout=budget + 60,
                                  cwd=tmp)
            out = proc.stdout
            code = proc.returncode
        except subprocess.TimeoutExpired as exc:
            out = (exc.stdout or b"").decode("utf-8", "replace") \
                if isinstance(exc.stdout, bytes) else (exc.stdout or "")
            code = -1
        execs = 0
        for line in out.splitlines():
            if line.startswith("stat::number_of_executed_units:"):
                execs = int(line.split(":")[-1])
        if os.path.exists(findings):
            for rec in json.load(open(findings)):
                res.fail(rec["sig"], rec["case"], rec["detail"])
        if code != 0:
            # libFuzzer's own verdicts: a hang (-timeout) or a crash of the
            # interpreter; the offending input is in the artifact file
            arts = [f for f in os.listdir(tmp)
                    if f.startswith(("timeout-", "crash-", "oom-"))]
            if arts:
                data = open(os.path.join(tmp, arts[0]), "rb").read()
                res.fail({"clause": "terminates" if arts[0].startswith(
                    "timeout-") else "fuzzer-artifact",
                    "kind": arts[0].split("-")[0]},
                    {"text": data[1:].decode("utf-8", "replace"),
                     "mode": "any", "raw": data.hex()},
                    "libFuzzer exit %d" % code)
            elif not execs:
                raise RuntimeError("atheris campaign failed to run:\n"
                                   + out[-1500:])
        units = len(os.listdir(corpus))
        res.evaluations += execs * 3
        res.nt_count += units          # inputs that added coverage
        res.label("atheris:execs", execs)
        res.label("atheris:corpus-units", units)
        res.label("atheris:%s-corpus" % ("empty" if shard.get("empty_corpus")
                                         else "seeded"))
        if len(res.samples) < 2 and units:
            name = sorted(os.listdir(corpus))[-1]
            raw = open(os.path.join(corpus, name), "rb").read()
            res.samples.append({"corpus_unit_hex": raw.hex()[:200]})
    finally:
        shutil.rmtree(tmp, ignore_errors=True)


def _strategy():
    from hypothesis import strategies as st
    sig = st.sampled_from(sorted(SIGNIFICANT))
    ins = st.one_of(sig, sig, st.sampled_from(PAYLOADS[:27]))
    any_text = st.text(max_size=64)
    dense = st.text(alphabet=st.one_of(sig, st.sampled_from("ab1"),
                                       st.characters()), max_size=64)

    @st.composite
    def mutated(draw):
        base = draw(st.sampled_from(VALID_PATHS))
        n = draw(st.integers(1, 3))
        for _ in range(n):
            op = draw(st.sampled_from(["ins", "del", "dup", "swap", "join"]))
            pos = draw(st.integers(0, max(len(base) - 1, 0)))
            if op == "ins":
                base = base[:pos] + draw(ins) + base[pos:]
            elif op == "del" and base:
                base = base[:pos] + base[pos + 1:]
            elif op == "dup" and base:
                base = base[:pos] + base[pos] + base[pos:]
            elif op == "swap" and len(base) > 1:
                pos = min(pos, len(base) - 2)
                base = base[:pos] + base[pos + 1] + base[pos] + base[pos + 2:]
            elif op == "join":
                base = base + draw(st.sampled_from(VALID_PATHS))
        return base

    return st.one_of(any_text, dense, mutated(), mutated())


def _run_hyp(shard, res, dl):
    from vp.hyp import run_given

    def body(text):
        _run_batch([text], res, "hypothesis", True)
        res.label("hyp:len>=16" if len(text) >= 16 else "hyp:len<16")
        if any(ord(c) > 127 for c in text):
            res.label("hyp:non-ascii")

    run_given(_strategy(), body, shard["seed"], shard["examples"], dl)
    if dl.expired():
        res.truncated = True


def replay(case):
    res = Result()
    signal.signal(signal.SIGALRM, _alarm)
    signal.alarm(20)
    try:
        check_text(case["text"], res, "replay")
    except _Hang:
        res.fail({"clause": "terminates", "exc": "timeout",
                  "frame": "yamlpath.py:_parse_path"}, case, "hang")
    finally:
        signal.alarm(0)
    return [r for _, recs in res.failures.values() for r in recs]


def shrink(case, sig):
    """Greedy character deletion keeping the same signature."""
    text = case["text"]
    changed = True
    while changed:
        changed = False
        for i in range(len(text)):
            cand = text[:i] + text[i + 1:]
            fails = replay({"text": cand, "mode": case.get("mode")})
            if any(f["sig"] == sig for f in fails):
                text = cand
                changed = True
                break
    return {"text": text, "mode": case.get("mode")}
