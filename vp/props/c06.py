"""C06 - a diff is truthful and complete; it is empty of changes iff the data
are equal."""
import itertools
import json
from types import SimpleNamespace

from vp.runner import Result, Deadline, exc_site
from vp.gen import docs as gdocs
from vp.model.plain import (canon, cscalar, is_map, is_seq, is_set,
                            is_container)

ID = "C06"
LEVEL = "exploration"
SCALARS = [None, 1, 2, 1.5, "a", "1", ""]
ARRAY_MODES = ["position", "value"]
AOH_MODES = ["position", "dpos", "value", "key", "deep"]
RULE = ("E1: (a) every document <= 3 nodes (no booleans, so no two values "
        "of different YAML type compare equal) compared with itself, (b) "
        "ordered pairs of those documents and of a hand-shaped family "
        "(lists with nulls / empty containers / repeats, Arrays-of-Hashes "
        "with identity keys, type clashes at equal keys) by seed-offset "
        "stride, (c) pairs derived by one random insert / delete / replace "
        "/ reorder edit (Hypothesis), each under arrays in {position, value} "
        "x aoh in {position, dpos, value, key, deep} (key/deep only when "
        "every member of both lists is a hash). Oracle (predicates, no "
        "reference differ): positional mode - every entry resolved on L and "
        "R by an own key/index walker: SAME/CHANGE/DELETE left value = L's "
        "value, SAME/CHANGE/ADD right value = R's value, SAME equal, CHANGE "
        "unequal, every leaf of L and R (nulls and empty containers count) "
        "covered by an entry at its path or an ancestor path; all modes - a "
        "non-SAME entry exists iff the documents differ as data (list order "
        "disregarded in synchronised modes); per list, every left index is "
        "accounted once as same/changed/deleted and every right index once "
        "as same/changed/added. Non-trivial = the documents differ in >= 1 "
        "leaf and share >= 1 leaf, or are identical and contain a list with "
        "a null / empty container; distinct by (L, R, modes).")
ASSUMPTIONS = ["DiffEntry exposes .lhs but no .rhs accessor: the harness "
               "reads the private attribute entry._rhs",
               "cross-type equal scalars (1 / true / 1.0) are not generated"]
EXHAUSTIVE = {"quick": False, "thorough": False}
SHARD_BUDGET_S = {"quick": 100, "thorough": 2400}
HARD_TIMEOUT_S = {"quick": 900, "thorough": 7200}


def S(v):
    return ["S", v, None]


def family():
    recs = [["M", [["a", S(1)]], None], ["M", [["a", S(1)], ["b", S(2)]], None],
            ["M", [["a", S(2)]], None], ["M", [["b", S(1)]], None],
            ["M", [["a", S(1)], ["b", S(3)]], None], ["M", [], None]]
    out = []
    for n in (1, 2):
        for combo in itertools.product(recs[:5], repeat=n):
            out.append(["L", list(combo), None])
            out.append(["M", [["a", ["L", list(combo), None]]], None])
    elems = [S(None), S(1), S("a"), ["L", [], None], ["M", [], None], S(2)]
    for n in (1, 2, 3):
        for combo in itertools.product(elems, repeat=n):
            if n == 3 and combo[0] != elems[0] and combo[1] != elems[3]:
                continue
            out.append(["L", list(combo), None])
    out += [["M", [["a", ["M", [], None]]], None],
            ["M", [["a", ["L", [], None]]], None],
            ["M", [["a", S(None)]], None], ["M", [["a", S(1)]], None],
            ["M", [["a", ["L", [S(1), S(2)], None]]], None],
            ["M", [["a", ["L", [S(2), S(1)], None]]], None],
            ["M", [["a", ["L", [S(1)], None]], ["b", S(1)]], None],
            ["M", [["b", S(1)], ["a", ["L", [S(1), S(None)], None]]], None],
            ["T", ["a", "b"], None], ["T", ["b"], None], ["T", [], None]]
    # lists reached after other keys have produced entries (replacements,
    # inserts, deletes and reorders of one element)
    variants = [[1, 2, 3], [1, 9, 3], [1, 3], [1, 2, 3, 4], [3, 2, 1],
                [1, 2, 2], ["a", "b", "c"], ["a", "z", "c"]]
    for v in variants:
        lst = ["L", [S(x) for x in v], None]
        out.append(["M", [["n", S("x")], ["v", S(1)], ["a", lst]], None])
        out.append(["M", [["n", S("y")], ["v", S(1)], ["a", lst]], None])
        out.append(["M", [["a", lst], ["n", S("x")]], None])
    return out


ANCHOR_STYLE = [
    "a: &x true\nb: *x\nc:\n  - *x\n  - txt\n",
    "a: true\nb: true\nc:\n  - true\n  - txt\n",
    "a: &x false\nb: *x\nc:\n  - *x\n  - txt\n",
    "a: false\nb: false\nc:\n  - false\n  - txt\n",
    "a: &n 5\nb: *n\nc:\n  - *n\n  - txt\n",
    "a: 5\nb: 5\nc:\n  - 5\n  - txt\n",
    "a: &s word\nb: *s\nc:\n  - *s\n  - txt\n",
    "a: word\nb: 'word'\nc:\n  - \"word\"\n  - txt\n",
]
_CORPUS = None


def corpus():
    global _CORPUS
    if _CORPUS is None:
        base = gdocs.specs_upto(3, scalars=SCALARS)
        _CORPUS = family() + base
    return _CORPUS


def make_differ(ldoc, arrays, aoh):
    from yamlpath.differ import Differ, DifferConfig
    args = SimpleNamespace(arrays=arrays, aoh=aoh)
    return Differ(DifferConfig(gdocs.logger(), args), gdocs.logger(), ldoc)


MISSING = object()


def resolve(doc, path):
    """Own walker: key / index segments only; MISSING when absent."""
    from yamlpath import YAMLPath
    from yamlpath.enums import PathSegmentTypes as T
    node = doc
    for stype, attrs in YAMLPath(str(path)).escaped:
        if stype is T.KEY:
            text = str(attrs)
            if is_map(node):
                hit = [k for k in node if isinstance(k, str) and k == text]
                if not hit:
                    hit = [k for k in node if not isinstance(k, str)
                           and str(k) == text]
                if not hit:
                    return MISSING
                node = node[hit[0]]
            elif is_set(node):
                hit = [m for m in node if str(m) == text]
                if not hit:
                    return MISSING
                node = hit[0]
            elif is_seq(node) and text.lstrip("-").isdigit():
                i = int(text)
                if not -len(node) <= i < len(node):
                    return MISSING
                node = node[i]
            else:
                return MISSING
        elif stype is T.INDEX and isinstance(attrs, int):
            if not is_seq(node) or not -len(node) <= attrs < len(node):
                return MISSING
            node = node[attrs]
        else:
            raise ValueError("unexpected segment in a diff path: %r"
                             % ((stype, attrs),))
    return node


def leaves(doc):
    """Leaf positions (tuple paths of str refs): scalars, nulls and empty
    containers."""
    out = []

    def walk(node, path):
        if is_map(node) and len(node):
            for k, v in node.items():
                walk(v, path + ("k:" + str(k),))
        elif is_seq(node) and len(node):
            for i, v in enumerate(node):
                walk(v, path + ("i:%d" % i,))
        elif is_set(node) and len(node):
            for m in node:
                out.append(path + ("k:" + str(m),))
        else:
            out.append(path)
    walk(doc, ())
    return out


def entry_path_tuple(entry, doc_l, doc_r):
    """Tuple path of an entry (resolved on whichever side has it)."""
    from yamlpath import YAMLPath
    from yamlpath.enums import PathSegmentTypes as T
    out = []
    for stype, attrs in YAMLPath(str(entry.path)).escaped:
        if stype is T.INDEX:
            out.append("i:%d" % attrs)
        else:
            out.append("k:" + str(attrs))
    return tuple(out)


def _norm_tuple(path_t, doc):
    """Keys that are bare list indexes in an entry path ('k:0' under a
    list) are normalised to 'i:0' by walking the document."""
    node = doc
    out = []
    for step in path_t:
        if step.startswith("k:") and is_seq(node) and \
                step[2:].lstrip("-").isdigit():
            step = "i:" + step[2:]
        out.append(step)
        try:
            if step.startswith("i:"):
                node = node[int(step[2:])]
            elif is_map(node):
                hit = [k for k in node if str(k) == step[2:]]
                node = node[hit[0]]
            else:
                node = None
        except Exception:
            node = None
    return tuple(out)


def unordered(c):
    """Canon with sequence order disregarded, recursively."""
    if c[0] == "M":
        return ["M", sorted(([k, unordered(v)] for k, v in c[1]),
                            key=json.dumps)]
    if c[0] == "L":
        return ["L", sorted((unordered(v) for v in c[1]), key=json.dumps)]
    if c[0] == "T":
        return ["T", sorted(c[1], key=json.dumps)]
    return c


def sets_sorted(c):
    if c[0] == "M":
        return ["M", sorted(([k, sets_sorted(v)] for k, v in c[1]),
                            key=json.dumps)]
    if c[0] == "L":
        return ["L", [sets_sorted(v) for v in c[1]]]
    if c[0] == "T":
        return ["T", sorted(c[1], key=json.dumps)]
    return c


def all_hash_lists(doc):
    """True when every list that is an AoH on either side holds only
    hashes (the precondition for key / deep)."""
    ok = [True]

    def walk(node):
        if is_seq(node):
            if any(is_map(x) for x in node) and not all(is_map(x)
                                                        for x in node):
                ok[0] = False
            for x in node:
                walk(x)
        elif is_map(node):
            for v in node.values():
                walk(v)
    walk(doc)
    return ok[0]


def paired_lists_ok(ldoc, rdoc):
    """key/deep: wherever two lists meet and the right one is an
    Array-of-Hashes, every member of BOTH lists must be a hash."""
    if is_seq(ldoc) and is_seq(rdoc):
        if any(is_map(x) for x in rdoc) or any(is_map(x) for x in ldoc):
            if not (all(is_map(x) for x in ldoc)
                    and all(is_map(x) for x in rdoc)):
                return False
        return all(paired_lists_ok(a, b) for a, b in zip(ldoc, rdoc))
    if is_map(ldoc) and is_map(rdoc):
        return all(paired_lists_ok(ldoc[k], rdoc[k]) for k in ldoc
                   if k in rdoc)
    return True


def check_pair(ltext, rtext, arrays, aoh, res, label=""):
    from yamlpath.differ.enums.diffactions import DiffActions
    ldoc, ok1 = gdocs.load(ltext)
    rdoc, ok2 = gdocs.load(rtext)
    if not (ok1 and ok2):
        return
    if aoh in ("key", "deep") and not (all_hash_lists(ldoc)
                                       and all_hash_lists(rdoc)
                                       and paired_lists_ok(ldoc, rdoc)):
        res.label("skipped:key/deep-needs-all-hash-lists")
        return
    res.evaluations += 1
    case = {"lhs": ltext, "rhs": rtext, "arrays": arrays, "aoh": aoh}
    try:
        differ = make_differ(ldoc, arrays, aoh)
        differ.compare_to(rdoc)
        entries = list(differ.get_report())
    except Exception as exc:
        etype, frame, src = exc_site(exc)
        res.fail({"clause": "no-crash", "exc": etype, "frame": frame,
                  "at": src[:60]}, case, "%s: %s" % (etype, exc))
        return
    from yamlpath.exceptions import YAMLPathException
    for e in entries:
        try:
            entry_path_tuple(e, ldoc, rdoc)
        except (YAMLPathException, ValueError) as exc:
            res.fail({"clause": "entry-path-is-a-valid-path",
                      "modes": "%s/%s" % (arrays, aoh)}, case,
                     "entry %s has path %r: %s" % (e.action.name,
                                                   e.path.original, exc))
            return
    cl, cr = canon(ldoc) if ldoc is not None else ["n"], \
        canon(rdoc) if rdoc is not None else ["n"]
    positional = arrays == "position" and aoh in ("position", "dpos")
    modes = "%s/%s" % (arrays, aoh)
    nonsame = [e for e in entries if e.action is not DiffActions.SAME]
    # (c) change detection
    if positional:
        differ_as_data = sets_sorted(cl) != sets_sorted(cr)
    else:
        differ_as_data = unordered(cl) != unordered(cr)
        if not differ_as_data and sets_sorted(cl) != sets_sorted(cr):
            # equal up to order: a positional sub-list (e.g. plain arrays
            # under arrays=position with aoh=value) may legitimately report
            # changes; undecided
            differ_as_data = None
    if differ_as_data is not None and bool(nonsame) != differ_as_data:
        res.fail({"clause": "non-SAME-iff-data-differ",
                  "sync": ("key" if aoh in ("key", "deep") else
                           "positional" if positional else "value"),
                  "shape": _idkey_shape(ldoc, rdoc)
                  if aoh in ("key", "deep") else "any",
                  "direction": "missed-difference" if differ_as_data
                  else "spurious-difference"}, case,
                 "entries: %s" % _show(entries))
        return
    # (a)+(b) truthfulness and coverage, positional mode
    if positional:
        covered = set()
        for e in entries:
            act = e.action.name
            lv = resolve(ldoc, e.path)
            rv = resolve(rdoc, e.path)
            why = None
            if act in ("SAME", "CHANGE", "DELETE"):
                if lv is MISSING or not _same_value(lv, e.lhs):
                    why = "left value is not what L holds at the path"
            if why is None and act in ("SAME", "CHANGE", "ADD"):
                if rv is MISSING or not _same_value(rv, e._rhs):
                    why = "right value is not what R holds at the path"
            if why is None and act == "SAME" and not _same_value(lv, rv):
                why = "SAME but the values differ"
            if why is None and act == "CHANGE" and _same_value(lv, rv):
                why = "CHANGE but the values are equal"
            if why:
                res.fail({"clause": "entry-is-true", "action": act,
                          "why": why}, case,
                         "entry %s %s lhs=%r rhs=%r; L holds %r, R holds %r"
                         % (act, e.path, e.lhs, e._rhs,
                            None if lv is MISSING else lv,
                            None if rv is MISSING else rv))
                return
            covered.add((act, _norm_tuple(entry_path_tuple(e, ldoc, rdoc),
                                          ldoc if act != "ADD" else rdoc)))
        for side, doc, acts in (("L", ldoc, ("SAME", "CHANGE", "DELETE")),
                                ("R", rdoc, ("SAME", "CHANGE", "ADD"))):
            if doc is None:
                continue
            for leaf in leaves(doc):
                if _leaf_kind(doc, leaf) == "empty-container" and any(
                        t[:len(leaf)] == leaf or leaf[:len(t)] == t
                        for _a, t in covered):
                    continue   # it gained/lost children, or is reported
                if not any((a, leaf[:n]) in covered for a in acts
                           for n in range(len(leaf) + 1)):
                    res.fail({"clause": "every-leaf-is-covered",
                              "side": side,
                              "leaf": _leaf_kind(doc, leaf)}, case,
                             "no entry covers %s leaf %r; entries: %s"
                             % (side, leaf, _show(entries)))
                    return
    else:
        if aoh not in ("key", "deep"):
            # value-synchronised modes: what an entry says about the LEFT
            # document (and an ADD about the right one) must still be true
            for e in entries:
                act = e.action.name
                lv = resolve(ldoc, e.path)
                rv = resolve(rdoc, e.path)
                why = None
                if act in ("SAME", "CHANGE", "DELETE") and (
                        lv is MISSING or not _same_value(lv, e.lhs)):
                    why = "left value is not what L holds at the path"
                elif act == "ADD" and (rv is MISSING
                                       or not _same_value(rv, e._rhs)):
                    why = "right value is not what R holds at the path"
                if why:
                    res.fail({"clause": "entry-is-true", "action": act,
                              "why": why, "sync": "value"}, case,
                             "entry %s %s lhs=%r rhs=%r; entries: %s" % (
                                 act, e.path.original, e.lhs, e._rhs,
                                 _show(entries)))
                    return
        why = _accounting(entries, ldoc, rdoc)
        if why:
            res.fail({"clause": "each-element-accounted-once",
                      "modes": modes}, case,
                     "%s; entries: %s" % (why, _show(entries)))
            return
    shared = set(leaves(ldoc)) & set(leaves(rdoc)) if (
        ldoc is not None and rdoc is not None) else set()
    if (differ_as_data and shared) or (ltext == rtext and
                                       ("null" in ltext or "[]" in ltext
                                        or "{}" in ltext)):
        res.nontrivial()
        if len(res.samples) < 3 and differ_as_data:
            res.samples.append(case)
    res.label("modes:" + modes)
    if label:
        res.label(label)


def _idkey_shape(ldoc, rdoc):
    """key/deep: does some pair of Arrays-of-Hashes hold a record lacking
    the identity key (the first key of the right list's first record)?"""
    found = []

    def walk(a, b):
        if is_seq(a) and is_seq(b):
            if len(b) and is_map(b[0]):
                idk = list(b[0])[0] if len(b[0]) else None
                if idk is None or any(is_map(x) and idk not in x
                                      for x in list(a) + list(b)):
                    found.append(True)
            for x, y in zip(a, b):
                walk(x, y)
        elif is_map(a) and is_map(b):
            for k in a:
                if k in b:
                    walk(a[k], b[k])
    walk(ldoc, rdoc)
    return "record-lacks-identity-key" if found else "all-records-keyed"


def _leaf_kind(doc, leaf):
    node = doc
    try:
        for step in leaf:
            if step.startswith("i:"):
                node = node[int(step[2:])]
            elif is_map(node):
                node = node[[k for k in node if str(k) == step[2:]][0]]
            else:
                return "set-member"
    except Exception:
        return "?"
    if node is None:
        return "null"
    if is_container(node):
        return "empty-container"
    return "scalar"


def _same_value(a, b):
    if a is MISSING or b is MISSING:
        return False
    ca = canon(a) if a is not None else ["n"]
    cb = canon(b) if b is not None else ["n"]
    return sets_sorted(ca) == sets_sorted(cb)


def _show(entries):
    return "; ".join("%s %s" % (e.action.name, e.path.original)
                     for e in entries)[:700]


def _accounting(entries, ldoc, rdoc):
    """Synchronised modes: per list path, each left index exactly once in
    same/changed/deleted and each right index once in same/changed/added -
    checked on the document's top-level synchronised list (root list or a
    list directly under a root key)."""
    from yamlpath.differ.enums.diffactions import DiffActions
    spots = []
    if is_seq(ldoc) and is_seq(rdoc):
        spots.append(((), ldoc, rdoc))
    elif is_map(ldoc) and is_map(rdoc):
        for k in ldoc:
            if k in rdoc and is_seq(ldoc[k]) and is_seq(rdoc[k]):
                spots.append((("k:" + str(k),), ldoc[k], rdoc[k]))
    for prefix, ll, rl in spots:
        if len(rl) == 0:
            continue
        n_l, n_r = len(ll), len(rl)
        same = chg = dele = add = 0
        for e in entries:
            t = entry_path_tuple(e, ldoc, rdoc)
            if len(t) < len(prefix) + 1 or t[:len(prefix)] != prefix:
                continue
            if len(t) > len(prefix) + 1:
                continue     # deeper entry of a recursed element
            if e.action is DiffActions.SAME:
                same += 1
            elif e.action is DiffActions.CHANGE:
                chg += 1
            elif e.action is DiffActions.DELETE:
                dele += 1
            else:
                add += 1
        deep_children = any(
            len(entry_path_tuple(e, ldoc, rdoc)) > len(prefix) + 1
            and entry_path_tuple(e, ldoc, rdoc)[:len(prefix)] == prefix
            for e in entries)
        if deep_children:
            continue         # elements were diffed recursively: undecided
        if same + chg + dele != n_l:
            return "left list of %d elements accounted %d times " \
                "(same=%d changed=%d deleted=%d)" % (n_l, same + chg + dele,
                                                     same, chg, dele)
        if same + chg + add != n_r:
            return "right list of %d elements accounted %d times " \
                "(same=%d changed=%d added=%d)" % (n_r, same + chg + add,
                                                   same, chg, add)
    return None


def mode_list():
    return list(itertools.product(ARRAY_MODES, AOH_MODES))


def plan(tier, seed):
    shards = []
    nsh = 32
    for i in range(nsh):
        shards.append({"kind": "self", "part": i, "parts": nsh})
        shards.append({"kind": "pairs", "part": i, "parts": nsh,
                       "offset": seed,
                       "stride": 900 if tier == "quick" else 40})
        shards.append({"kind": "fam", "part": i, "parts": nsh, "offset": seed,
                       "stride": 6 if tier == "quick" else 1})
    return shards


def run_shard(shard):
    res = Result()
    dl = Deadline(shard.get("budget_s"))
    specs = corpus()
    modes = mode_list()
    if shard["kind"] == "self":
        for di in range(shard["part"], len(specs), shard["parts"]):
            if dl.expired():
                res.truncated = True
                break
            text = gdocs.emit(specs[di])
            for arrays, aoh in modes:
                check_pair(text, text, arrays, aoh, res, "self-diff")
    elif shard["kind"] == "fam":
        fam = [gdocs.emit(s) for s in family()]
        if shard["part"] == 0:
            # the same data with and without anchors / aliases (an anchored
            # scalar loads as another node class than a plain one)
            for lt in ANCHOR_STYLE:
                for rt in ANCHOR_STYLE:
                    for arrays, aoh in modes:
                        check_pair(lt, rt, arrays, aoh, res)
                        res.label("anchored-vs-plain")
        n = 0
        for lt in fam:
            for rt in fam:
                n += 1
                if n % shard["parts"] != shard["part"]:
                    continue
                if (n // shard["parts"] + shard["offset"]) % shard["stride"]:
                    continue
                if dl.expired():
                    res.truncated = True
                    return res
                for arrays, aoh in modes:
                    check_pair(lt, rt, arrays, aoh, res)
    else:
        total = len(specs)
        n = 0
        texts = {}
        for li in range(total):
            for ri in range((li * 13 + shard["offset"]) % shard["stride"],
                            total, shard["stride"]):
                n += 1
                if n % shard["parts"] != shard["part"]:
                    continue
                if dl.expired():
                    res.truncated = True
                    return res
                for idx in (li, ri):
                    if idx not in texts:
                        texts[idx] = gdocs.emit(specs[idx])
                arrays, aoh = modes[n % len(modes)]
                check_pair(texts[li], texts[ri], "position", "position", res)
                check_pair(texts[li], texts[ri], arrays, aoh, res)
    return res


def replay(case):
    res = Result()
    check_pair(case["lhs"], case["rhs"], case["arrays"], case["aoh"], res)
    return [r for _, recs in res.failures.values() for r in recs]
