"""C04 - a delete removes exactly the matched nodes, whatever their number or
position; deleting the document root is refused and changes nothing."""
import json

from vp.runner import Result, Deadline, exc_site
from vp.gen import docs as gdocs, paths as gpaths
from vp.model import query as mq, edit as medit
from vp.model.compare import Unspecified
from vp.model.plain import (canon, is_seq, is_map, is_set, is_container,
                            positions)
from vp import real

ID = "C04"
LEVEL = "exploration"
RULE = ("E1: every document with <= 3 nodes (C01 alphabet; n=4 by stride) x "
        "every C01-vocabulary path of <= 2 segments for which the reference "
        "evaluator selects >= 1 node; the matched set is removed from a "
        "plain-data walk of an untouched copy and compared with the document "
        "after (a) delete_nodes() fully consumed and (b) gather + "
        "delete_gathered_nodes(), each on a freshly loaded copy; a match on "
        "the root must raise a YAMLPathException and leave the document "
        "unchanged; the same grid with the keys moved onto integer / "
        "number-like / spaced keys; Collector additions (A)+(B)[+(C)] of the "
        "coordinate paths of every two (three) nodes and two wildcards, in "
        "every order, matched set = union of the operands' matches (a lone "
        "Collector gathering one sequence = its elements); slices that can "
        "hold no element (reversed, at/past the end) through delete and set "
        "must change nothing; a Collector gathering the root next to other "
        "nodes must be refused with nothing deleted. "
        "E2: Hypothesis documents with anchors x derived paths. "
        "Non-trivial = >= 2 matched positions, or an empty-container / "
        "nested / negative-index / repeated target; distinct by (document, "
        "path, entry).")
ASSUMPTIONS = ["which positions a path matches is decided by the C01 "
               "reference evaluator (Unspecified paths are skipped and "
               "counted)",
               "Collector operands whose results include a sequence (which "
               "then stands for its elements) or that match nothing are "
               "skipped and counted"]
EXHAUSTIVE = {"quick": True, "thorough": True}
SHARD_BUDGET_S = {"quick": 100, "thorough": 2400}
HARD_TIMEOUT_S = {"quick": 900, "thorough": 7200}

_PATHS = {}


def paths(k):
    if k not in _PATHS:
        out = []
        for n in range(1, k + 1):
            for segs in gpaths.enum_paths_exact(n):
                segs = [tuple(s) for s in segs]
                out.append((segs, gpaths.render(segs, "/" if len(out) % 2
                                                else "."), gpaths.kinds(segs)))
        _PATHS[k] = out
    return _PATHS[k]


def shape_of(matches):
    """Small class of the matched set (part of the failure signature)."""
    keys = [medit.poskey(m.p, m.r) for m in matches if m.p is not None]
    if any(m.p is None for m in matches):
        return "root-matched"
    if len(set(keys)) < len(keys):
        return "same-position-twice"
    paths_ = [m.path for m in matches]
    if any(a != b and b[:len(a)] == a for a in paths_ for b in paths_):
        return "nested-matches"
    if any(is_container(m.v) and len(m.v) == 0 for m in matches):
        return "empty-container-target"
    parents = {}
    for m in matches:
        parents.setdefault(id(m.p), []).append(m)
    if any(len(v) > 1 and is_seq(v[0].p) for v in parents.values()):
        return "many-in-one-sequence"
    if any(is_set(m.p) for m in matches):
        return "set-member"
    if len(matches) > 1:
        return "many"
    return "single"


def check_delete(text, segs, ptext, kinds, res, entries=("delete", "gather"),
                 doc_a=None, operands=None):
    """doc_a: an untouched loaded copy of text (never modified here).
    operands: when given, the path is the collector addition (A)+(B)+... of
    these operand paths and the matched set is the union of their matches."""
    from yamlpath.exceptions import YAMLPathException
    if doc_a is None:
        doc_a, ok = gdocs.load(text)
        if not ok or doc_a is None:
            return
    try:
        if operands is not None:
            matches = []
            for op in operands:
                got = medit.flatten_matches(mq.evaluate(doc_a, op))
                if not got:
                    # a required collector operand that matches nothing
                    res.label("collector-operand-unmatched")
                    return
                if len(operands) == 1 and len(got) == 1 and \
                        is_seq(got[0].v) and len(got[0].v) > 0:
                    # a lone Collector whose sole result is a sequence stands
                    # for that sequence's elements
                    seq = got[0]
                    got = [mq.N(v, seq.v, i, seq.path + (("i", i),))
                           for i, v in enumerate(seq.v)]
                    if any(is_seq(g.v) for g in got):
                        res.label("unspecified")
                        return
                    res.label("collector-sole-sequence")
                elif any(is_seq(g.v) for g in got):
                    # a sequence among an operand's results stands for its
                    # elements (always on the right of +, on the left when
                    # it is the sole result)
                    res.label("unspecified")
                    return
                matches += got
        else:
            matches = medit.flatten_matches(mq.evaluate(doc_a, segs))
    except Unspecified:
        res.label("unspecified")
        return
    except mq.ModelError:
        res.label("model-error-path")
        return
    if not matches:
        res.label("no-match")
        return
    shape = shape_of(matches)
    root = shape == "root-matched"
    delset = {medit.poskey(m.p, m.r) for m in matches if m.p is not None}
    expected = medit.sorted_set_canon(medit.canon_without(doc_a, delset))
    before = medit.sorted_set_canon(canon(doc_a))
    case = {"doc": text, "path": gpaths.to_json(segs)} if operands is None \
        else {"doc": text, "collector+": [gpaths.to_json(op)
                                          for op in operands], "text": ptext}
    if operands is not None:
        mp = [m.path for m in matches]
        if any(a != b and b[:len(a)] == a for a in mp for b in mp):
            res.label("unspecified")    # an operand inside another operand
            return
        shape = "collector:" + shape
    for entry in entries:
        res.evaluations += 1
        doc_b, _ = gdocs.load(text)
        proc = real.processor(doc_b)
        raised = None
        try:
            if entry == "delete":
                for _ in proc.delete_nodes(real.ypath(ptext)):
                    pass
            else:
                gathered = list(proc.get_nodes(real.ypath(ptext),
                                               mustexist=True))
                proc.delete_gathered_nodes(gathered)
        except YAMLPathException as exc:
            raised = exc
        except Exception as exc:
            etype, frame, src = exc_site(exc)
            res.fail({"clause": "no-crash", "exc": etype, "frame": frame,
                      "shape": shape}, dict(case, entry=entry),
                     "%s: %s (path %s)" % (etype, exc, ptext))
            continue
        after = medit.sorted_set_canon(canon(doc_b))
        sub = dict(case, entry=entry)
        if root:
            if raised is None:
                res.fail({"clause": "root-delete-refused", "shape": shape},
                         sub, "no YAMLPathException for %s" % ptext)
            elif len(matches) == 1 and after != before:
                res.fail({"clause": "root-delete-changes-nothing",
                          "shape": shape}, sub, "document changed")
            res.label("root-refused")
            continue
        if raised is not None:
            res.fail({"clause": "unexpected-yamlpath-error", "shape": shape},
                     sub, "%s" % raised)
            continue
        if after != expected:
            res.fail({"clause": "exactly-the-matched-nodes", "shape": shape,
                      "entry": entry}, sub,
                     "path %s\nexpected %s\ngot      %s" % (
                         ptext, json.dumps(expected), json.dumps(after)))
        if shape != "single":
            res.nontrivial()
            if len(res.samples) < 3:
                res.samples.append(dict(sub, dot=ptext, shape=shape))
        res.label("shape:" + shape)


def plan(tier, seed):
    shards = []
    nsh = 48
    for i in range(nsh):
        shards.append({"kind": "grid", "nmax": 3, "part": i, "parts": nsh,
                       "stride": 1, "offset": seed})
    for i in range(nsh):
        shards.append({"kind": "grid", "nmin": 4, "nmax": 4, "part": i,
                       "parts": nsh, "offset": seed,
                       "stride": 24 if tier == "quick" else 2})
    for kv in range(len(gdocs.KEY_VARIANTS)):
        for i in range(4):
            shards.append({"kind": "grid", "nmax": 3, "part": i, "parts": 4,
                           "offset": seed, "keyvar": kv,
                           "stride": 5 if tier == "quick" else 1})
    shards.append({"kind": "empty-slice"})
    for i in range(8):
        shards.append({"kind": "collect", "part": i, "parts": 8,
                       "nmax": 3 if tier == "quick" else 4})
    nh, per = (16, 150) if tier == "quick" else (64, 1500)
    for i in range(nh):
        shards.append({"kind": "hyp", "seed": seed * 1000 + i,
                       "examples": per})
    return shards


def run_shard(shard):
    res = Result()
    dl = Deadline(shard.get("budget_s"))
    if shard["kind"] == "grid":
        specs = []
        for n in range(shard.get("nmin", 1), shard["nmax"] + 1):
            specs.extend(gdocs.specs_exact(n))
        plist = paths(2)
        kv = shard.get("keyvar")
        if kv is not None:
            # the same grid moved onto other keys (negative / zero / wide
            # ints, number-like text next to the int key, spaced text)
            specs = gdocs.variant_specs(specs, kv)
            plist = []
            for segs, _, _ in paths(2):
                segs = gdocs.variant_segs(segs, kv)
                plist.append((segs, gpaths.render(
                    segs, "/" if len(plist) % 2 else "."),
                    gpaths.kinds(segs)))
            res.label("keyvar:" + gdocs.KEY_VARIANTS[kv][0])
        for di in range(shard["part"], len(specs), shard["parts"]):
            if dl.expired():
                res.truncated = True
                break
            text = gdocs.emit(specs[di])
            doc_a, ok = gdocs.load(text)
            if not ok or doc_a is None:
                continue
            for pi, (segs, ptext, kinds) in enumerate(plist):
                if shard["stride"] > 1 and \
                        (di * 31 + pi + shard["offset"]) % shard["stride"]:
                    continue
                check_delete(text, segs, ptext, kinds, res, doc_a=doc_a)
    elif shard["kind"] == "collect":
        _run_collect(shard, res, dl)
    elif shard["kind"] == "empty-slice":
        _run_empty_slices(res)
        _run_root_in_collector(res)
        _run_own_key_beside_merge_key(res)
    else:
        _run_hyp(shard, res, dl)
    return res


COLLECT_EXTRA = [
    ["M", [["a", ["L", [["S", 1, None], ["S", 2, None], ["S", 3, None]],
                  None]]], None],
    ["M", [["a", ["L", [["S", 1, None], ["S", 1, None], ["S", 2, None],
                        ["S", 1, None]], None]], ["b", ["S", 1, None]]], None],
    ["L", [["S", "x", None], ["S", "y", None], ["S", "z", None]], None],
    ["M", [["a", ["M", [["a", ["S", 1, None]], ["b", ["S", 2, None]]], None]],
           ["b", ["L", [["S", 1, None], ["S", 2, None]], None]]], None],
]


def _run_own_key_beside_merge_key(res):
    """Deleting an OWN key of a Hash that also takes keys through a YAML
    merge key (<<) removes exactly that key - whatever it is called, e.g.
    like the anchor the merge key refers to.  (Keys that only arrive through
    the merge key are not deleted here: documentation-silent, section 13.)"""
    import json
    from vp.model.plain import is_map
    for anchor in ("foo", "b"):
        for own in ("foo", "b", "bar", "x2"):
            text = ("base: &%s\n  x: 1\nchild:\n  <<: *%s\n  %s: 2\n"
                    "  keep: 3\nlast: 0\n" % (anchor, anchor, own))
            for ptext in ("/child/%s" % own, "child.%s" % own):
                doc, ok = gdocs.load(text)
                if not ok:
                    raise RuntimeError("merge-key text does not load")
                before = canon(doc)
                want = json.loads(json.dumps(before))
                for pair in want[1]:
                    if pair[0] == ["s", "child"]:
                        pair[1][1] = [kv for kv in pair[1][1]
                                      if kv[0] != ["s", own]]
                res.evaluations += 1
                case = {"doc": text, "text": ptext, "own-key-merge-key": True}
                try:
                    n = len(list(real.processor(doc).delete_nodes(
                        real.ypath(ptext))))
                except Exception as exc:
                    etype, frame, src = exc_site(exc)
                    res.fail({"clause": "no-crash", "exc": etype,
                              "frame": frame, "shape": "own-key-merge-key"},
                             case, "%s: %s" % (etype, exc))
                    continue
                views = [("memory", canon(doc))]
                again, ok = gdocs.load(gdocs.dump(doc))
                if ok:
                    views.append(("reloaded", canon(again)))
                bad = [(v, c) for v, c in views if c != want]
                if n != 1 or bad:
                    res.fail({"clause": "exactly-the-matched-nodes",
                              "entry": "delete",
                              "shape": "own-key-beside-merge-key",
                              "named-like-anchor": own == anchor}, case,
                             "matched %d; %s is %s, expected %s" % (
                                 n, bad[0][0] if bad else "-",
                                 json.dumps(bad[0][1]) if bad else "-",
                                 json.dumps(want)))
                    continue
                res.nontrivial()
                res.label("own-key-beside-merge-key")


def _run_root_in_collector(res):
    """A Collector that gathers the document root next to other nodes:
    the delete must be refused and nothing - not even the other operands'
    nodes - may be gone."""
    from yamlpath.exceptions import YAMLPathException
    # (a Hash root only: a gathered Array stands for its elements)
    for text in ("a:\n  - 1\n  - 2\nb: 9\n", "b: 1\n"):
        for ptext in ("(/)+(/b)", "(/b)+(/)", "(/)+(/a[0])", "(/)"):
            doc, _ = gdocs.load(text)
            before = canon(doc)
            res.evaluations += 1
            case = {"doc": text, "text": ptext, "root-in-collector": True}
            try:
                for _ in real.processor(doc).delete_nodes(real.ypath(ptext)):
                    pass
                raised = False
            except YAMLPathException:
                raised = True
            except Exception as exc:
                etype, frame, src = exc_site(exc)
                res.fail({"clause": "no-crash", "exc": etype, "frame": frame,
                          "shape": "root-in-collector"}, case,
                         "%s: %s" % (etype, exc))
                continue
            if canon(doc) != before:
                res.fail({"clause": "root-delete-changes-nothing",
                          "shape": "root-in-collector", "raised": raised},
                         case, "before %s after %s" % (
                             json.dumps(before), json.dumps(canon(doc))))
                continue
            if not raised:
                res.label("root-in-collector:no-match")
                continue
            res.nontrivial()
            res.label("root-in-collector:refused")


def _run_empty_slices(res):
    """A slice that cannot hold any element (reversed bounds, or starting at
    or past the end) selects nothing: deleting or setting through it must
    leave the document as it was (a YAML Path error is fine)."""
    from yamlpath.exceptions import YAMLPathException
    for n in range(0, 4):
        text = "a: [%s]\nb: 1\n" % ", ".join(str(i + 1) for i in range(n))
        for lo in range(0, 6):
            for hi in range(0, 6):
                if not (lo > hi or lo >= n):
                    continue
                for sep, ptext in ((".", "a[%d:%d]" % (lo, hi)),
                                   ("/", "/a[%d:%d]" % (lo, hi))):
                    for entry in ("delete", "set", "set-optional"):
                        doc, _ = gdocs.load(text)
                        before = canon(doc)
                        res.evaluations += 1
                        case = {"doc": text, "text": ptext, "entry": entry,
                                "empty-slice": True}
                        try:
                            proc = real.processor(doc)
                            if entry == "delete":
                                for _ in proc.delete_nodes(real.ypath(ptext)):
                                    pass
                            else:
                                proc.set_value(real.ypath(ptext), 9,
                                               mustexist=entry == "set")
                        except YAMLPathException:
                            pass
                        except Exception as exc:
                            etype, frame, src = exc_site(exc)
                            res.fail({"clause": "no-crash", "exc": etype,
                                      "frame": frame, "shape": "empty-slice"},
                                     case, "%s: %s" % (etype, exc))
                            continue
                        if canon(doc) != before:
                            res.fail({"clause": "empty-selection-changes-"
                                      "nothing", "entry": entry,
                                      "shape": "reversed" if lo > hi
                                      else "past-the-end"}, case,
                                     "before %s after %s" % (
                                         json.dumps(before),
                                         json.dumps(canon(doc))))
                            continue
                        res.nontrivial()
                        res.label("empty-slice:" + entry)


def _operands(doc):
    """Coordinate path of every node below the root, plus two wildcards."""
    out = []
    for path, node, parent, ref in positions(doc):
        if parent is None or any(st[0] == "m" for st in path):
            continue
        segs = []
        for st in path:
            if st[0] == "i":
                segs.append(("index", st[1]))
            elif len(st) > 2 and str(st[2]) != "":
                segs.append(("key", str(st[2])))
            else:
                segs = None
                break
        if segs:
            out.append(segs)
            if segs[-1][0] == "index" and is_seq(parent):
                # the same element counted from the end: a delete that
                # matches one position under both spellings removes it once
                out.append(segs[:-1] + [("index", segs[-1][1] - len(parent))])
    out.append([("all",)])
    out.append([("key", "a"), ("all",)])
    return out


def _run_collect(shard, res, dl):
    """(A)+(B) and (A)+(B)+(C) over coordinate paths in every order: the
    order in which a collector lists its operands must not matter."""
    specs = COLLECT_EXTRA + gdocs.specs_upto(shard["nmax"])
    n = 0
    for di in range(shard["part"], len(specs), shard["parts"]):
        if dl.expired():
            res.truncated = True
            return
        text = gdocs.emit(specs[di])
        doc_a, ok = gdocs.load(text)
        if not ok or doc_a is None or not is_container(doc_a):
            continue
        ops = _operands(doc_a)
        combos = [(a,) for a in ops] + [(a, b) for a in ops for b in ops]
        if di < len(COLLECT_EXTRA):
            combos += [(a, b, c) for a in ops[:6] for b in ops[:6]
                       for c in ops[:6] if a != b and b != c and a != c]
        for combo in combos:
            n += 1
            sep = "/" if n % 2 else "."
            ptext = "+".join("(%s)" % gpaths.render(op, sep) for op in combo)
            check_delete(text, None, ptext, "C", res, doc_a=doc_a,
                         operands=[list(op) for op in combo])


def _run_hyp(shard, res, dl):
    from hypothesis import strategies as st
    from vp.hyp import run_given

    @st.composite
    def doc_and_paths(draw):
        spec = draw(gdocs.st_spec(max_leaves=10, with_anchors=True))
        text = gdocs.emit(spec)
        doc, ok = gdocs.load(text)
        if not ok or doc is None:
            return (text, [])
        plist = draw(st.lists(gpaths.st_path_for(doc), min_size=1,
                              max_size=5))
        return (text, plist)

    def body(value):
        text, plist = value
        doc_a = None
        if plist:
            doc_a, ok = gdocs.load(text)
            if not ok or doc_a is None:
                return
        for segs in plist:
            segs = [tuple(s) for s in segs]
            before = res.nt_count
            check_delete(text, segs, gpaths.render(segs, "."),
                         gpaths.kinds(segs), res, doc_a=doc_a)
            if res.nt_count > before:
                res.nt_count = before
                res.nontrivial(key=[text, gpaths.to_json(segs)], sample=False)

    run_given(doc_and_paths(), body, shard["seed"], shard["examples"], dl)
    if dl.expired():
        res.truncated = True


def replay(case):
    res = Result()
    entries = (case["entry"],) if "entry" in case else ("delete", "gather")
    if case.get("own-key-merge-key"):
        _run_own_key_beside_merge_key(res)
        return [r for _, recs in res.failures.values() for r in recs]
    if case.get("root-in-collector"):
        _run_root_in_collector(res)
        return [r for _, recs in res.failures.values() for r in recs]
    if case.get("empty-slice"):
        _run_empty_slices(res)
        return [r for _, recs in res.failures.values() for r in recs]
    if "collector+" in case:
        check_delete(case["doc"], None, case["text"], "C", res, entries,
                     operands=[gpaths.from_json(p) for p in
                               case["collector+"]])
        return [r for _, recs in res.failures.values() for r in recs]
    segs = gpaths.from_json(case["path"])
    check_delete(case["doc"], segs, gpaths.render(segs, "."),
                 gpaths.kinds(segs), res, entries)
    return [r for _, recs in res.failures.values() for r in recs]
