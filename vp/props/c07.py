"""C07 - yaml-paths search is sound and complete, and every printed path
resolves."""
import itertools
import json

from vp.runner import Result, Deadline, exc_site
from vp.gen import docs as gdocs
from vp.model import compare
from vp.model.compare import Unspecified
from vp.model.plain import (is_map, is_seq, is_set, is_container, anchor_of,
                            refkey, cscalar)
from vp import real
from vp.props.c02 import SPECIAL_KEYS

ID = "C07"
LEVEL = "exploration"
METHODS = compare.ALL_METHODS
TERMS = ["a", "1", "b", "x", "2", ""]
RULE = ("E1: every document <= 3 nodes without sets (keys a/b replaced by "
        "keys carrying escapable characters on a rotating subset, and by "
        "negative/zero/wide integer and number-like text keys on another) plus a "
        "family with scalar anchors and aliases (alias under a key, inside "
        "a sequence, outside the anchor's subtree, first anchor below the "
        "root; anchored keys used again as aliased keys of scalars, hashes "
        "and lists, value anchors first defined beneath an aliased key) x "
        "expressions = 9 operators x inverted x %d terms (strided) "
        "x {values, keys+values, keys only} x value-alias inclusion x "
        "key-alias inclusion x "
        "anchor-name search x expansion x both notations, through "
        "search_for_paths(). Oracle: an own reference search (document "
        "order, first occurrence of an anchored object = anchor, later ones "
        "= aliases, C12 comparison table); soundness - each reported path "
        "re-queried in its notation returns only the matched node object "
        "and that node / its key / its anchor name satisfies the "
        "expression; completeness - every expected position is reported or "
        "lies under a reported key match; uniqueness; expansion = leaf "
        "descendants of the unexpanded matches under the same alias rule. "
        "Non-trivial = >= 1 match at depth >= 2 or an alias influences the "
        "answer; distinct by (document, expression, options)." % len(TERMS))
ASSUMPTIONS = ["sets, anchored containers and YAML merge keys are not "
               "generated (their treatment is not documented); anchored keys "
               "are scalars and never aliased by their own value",
               "cells the C12 table leaves Unspecified are skipped"]
EXHAUSTIVE = {"quick": False, "thorough": False}
SHARD_BUDGET_S = {"quick": 100, "thorough": 2400}
HARD_TIMEOUT_S = {"quick": 900, "thorough": 7200}


def S(v, a=None):
    return ["S", v, a]


def family():
    A = ["A", "x"]
    out = []
    for v in (1, "a", "ab"):
        out += [
            ["M", [["a", S(v, "x")], ["b", A]], None],
            ["M", [["a", ["L", [S(v, "x"), A, S("b")], None]]], None],
            ["M", [["s", ["M", [["p", ["M", [["h", S(v, "x")]], None]]],
                          None]], ["r", A]], None],
            ["M", [["a", S(v, "x")], ["b", ["L", [A, S(v)], None]],
                   ["c", A]], None],
            ["L", [S(v, "x"), A, ["M", [["k", A]], None]], None],
            ["M", [["top", S("t", "y")],
                   ["s", ["M", [["h", S(v, "x")]], None]], ["r", A],
                   ["u", ["A", "y"]]], None],
        ]
    KD = lambda name, anc: ["KD", name, anc]
    KA = lambda anc: ["KA", anc]
    for kn, v in (("a", 1), ("ab", "a"), ("k1", "b")):
        out += [
            # an anchored key, used again as an aliased key of scalars/hashes
            ["M", [["p", ["M", [[KD(kn, "kx"), S(v)]], None]],
                   ["q", ["M", [[KA("kx"), S(2)]], None]],
                   ["r", ["M", [[KA("kx"), ["M", [["sub", S(kn)],
                                                   ["a", S(v)]], None]]],
                          None]]], None],
            # a value anchor first defined beneath an aliased key
            ["M", [["anchors", ["M", [[KD(kn, "kx"), S(v, "vx")]], None]],
                   ["parent", ["M", [[KA("kx"), S("a", "x")],
                                     ["other", ["A", "x"]],
                                     ["plain", S("a")]], None]],
                   ["again", ["A", "vx"]]], None],
            # aliased key holding a list with an alias of an outside anchor
            ["M", [[KD(kn, "kx"), S(v, "x")],
                   ["n", ["M", [[KA("kx"), ["L", [["A", "x"], S("a")],
                                                  None]],
                                ["b", ["A", "x"]]], None]]], None],
        ]
    out += [["M", [["users", ["L", [["M", [["name", S("a")],
                                           ["tags", ["L", [S("a"), S("b")],
                                                     None]]], None],
                                    ["L", [S("a")], None]], None]],
                   ["gates", ["L", [S("a"), S("x")], None]],
                   ["a", S("k")]], None],
            ["M", [["a", ["M", [], None]], ["ab", ["L", [], None]],
                   ["b", ["M", [["a", S(1)]], None]]], None]]
    return out


def has_unsupported(doc):
    """Sets / anchored containers / merge keys."""
    bad = [False]

    def walk(node):
        if is_set(node):
            bad[0] = True
        elif is_map(node):
            if getattr(node, "merge", None):
                bad[0] = True
            for k, v in node.items():
                if is_container(v) and anchor_of(v) is not None:
                    bad[0] = True
                if anchor_of(k) is not None and anchor_of(k) == anchor_of(v):
                    bad[0] = True       # a key aliased by its own value
                walk(v)
        elif is_seq(node):
            for v in node:
                if is_container(v) and anchor_of(v) is not None:
                    bad[0] = True
                walk(v)
    walk(doc)
    return bad[0]


class Opts:
    def __init__(self, values, keys, val_aliases, anchors, expand, sep,
                 key_aliases=False):
        self.values, self.keys, self.val_aliases = values, keys, val_aliases
        self.anchors, self.expand, self.sep = anchors, expand, sep
        self.key_aliases = key_aliases

    def as_dict(self):
        return {"search_values": self.values, "search_keys": self.keys,
                "include_value_aliases": self.val_aliases,
                "include_key_aliases": self.key_aliases,
                "search_anchors": self.anchors, "expand": self.expand,
                "sep": self.sep}


def _ok(method, term, inverted, hay):
    return bool(compare.match(method, term, hay)) != bool(inverted)


def model_search(doc, method, term, inverted, o):
    """Expected matches as [(position tuple, parent, ref, kind)] in document
    order; raises Unspecified.

    An anchored node (value or key) counts as the anchor at its first
    occurrence in document order and as an alias at every later one.  An
    aliased key that the options do not ask for is discarded together with
    its value and child nodes; an aliased value likewise."""
    seen = []
    out = []

    def note(node):
        """(anchor name, is-an-aliased-repeat); puts the name on record."""
        name = anchor_of(node)
        if name is None:
            return None, False
        if name in seen:
            return name, True
        seen.append(name)
        return name, False

    def leaves(node, parent, ref, pos):
        """yield_children semantics: leaf descendants, alias rules applied."""
        if is_map(node):
            for k, v in node.items():
                _, kalias = note(k)
                _, valias = note(v)
                if (kalias and not o.key_aliases) or \
                        (valias and not o.val_aliases):
                    continue
                leaves(v, node, k, pos + (refkey(node, k),))
        elif is_seq(node):
            for i, v in enumerate(node):
                _, valias = note(v)
                if valias and not o.val_aliases:
                    continue
                leaves(v, node, i, pos + (("i", i),))
        else:
            out.append((pos, parent, ref, "expanded"))

    def report(node, parent, ref, pos, kind):
        if o.expand:
            leaves(node, parent, ref, pos)
        else:
            out.append((pos, parent, ref, kind))

    def value(node, parent, ref, pos, name, alias):
        if name is not None and o.anchors:
            if alias and not o.val_aliases:
                return
            if _ok(method, term, inverted, name):
                report(node, parent, ref, pos, "anchor-name")
                return
        if is_map(node) or is_seq(node):
            walk(node, pos)
        elif o.values:
            if alias and not o.val_aliases:
                return
            if _ok(method, term, inverted, node):
                out.append((pos, parent, ref, "value"))

    def walk(node, pos):
        if is_map(node):
            for k, v in node.items():
                p = pos + (refkey(node, k),)
                kname, kalias = note(k)
                vname, valias = note(v)
                if kalias and not o.key_aliases:
                    continue            # with its value and child nodes
                if o.keys:
                    if kname is not None and o.anchors and \
                            _ok(method, term, inverted, kname):
                        report(v, node, k, p, "key-anchor-name")
                        continue
                    if _ok(method, term, inverted, k):
                        report(v, node, k, p, "key")
                        continue
                value(v, node, k, p, vname, valias)
        elif is_seq(node):
            for i, v in enumerate(node):
                vname, valias = note(v)
                value(v, node, i, pos + (("i", i),), vname, valias)
    walk(doc, ())
    return out


def check_search(doc, text, method, term, inverted, o, res):
    from yamlpath.commands.yaml_paths import search_for_paths
    from yamlpath.eyaml import EYAMLProcessor
    from yamlpath.path import SearchTerms
    from yamlpath.enums import PathSearchMethods, PathSeparators
    from yamlpath.exceptions import YAMLPathException
    res.evaluations += 1
    case = {"doc": text, "method": method, "term": term,
            "inverted": inverted, "opts": o.as_dict()}
    try:
        exp = model_search(doc, method, term, inverted, o)
    except Unspecified:
        res.label("unspecified")
        return
    terms = SearchTerms(inverted, PathSearchMethods[method], ".", term)
    sep = PathSeparators.FSLASH if o.sep == "/" else PathSeparators.DOT
    proc = EYAMLProcessor(gdocs.logger(), doc)
    try:
        got = list(search_for_paths(
            gdocs.logger(), proc, doc, terms, sep, "", None,
            search_values=o.values, search_keys=o.keys,
            search_anchors=o.anchors, include_key_aliases=o.key_aliases,
            include_value_aliases=o.val_aliases, decrypt_eyaml=False,
            expand_children=o.expand, all_anchors={}))
    except Exception as exc:
        etype, frame, src = exc_site(exc)
        res.fail({"clause": "no-crash", "exc": etype, "frame": frame}, case,
                 "%s: %s" % (etype, exc))
        return
    mode = "%s%s%s%s%s" % ("V" if o.values else "", "K" if o.keys else "",
                           "+aliases" if o.val_aliases else "",
                           "+keyaliases" if o.key_aliases else "",
                           "+refnames" if o.anchors else "")
    texts = [str(p) for p in got]
    # every printed path resolves, in the notation it was printed in
    got_pos = []
    for ptext in texts:
        if (o.sep == "/") != ptext.startswith("/"):
            res.fail({"clause": "printed-in-the-requested-notation"}, case,
                     "path %r with separator %r" % (ptext, o.sep))
            return
        try:
            found = list(proc.get_nodes(real.ypath(ptext), mustexist=True))
        except YAMLPathException as exc:
            res.fail({"clause": "reported-path-resolves", "why": "raises",
                      "mode": mode, "expand": o.expand}, case,
                     "path %r: %s" % (ptext, exc))
            return
        except Exception as exc:
            res.fail({"clause": "reported-path-resolves", "why": "crashes",
                      "mode": mode}, case, "path %r: %s: %s" % (
                          ptext, type(exc).__name__, exc))
            return
        objs = {id(f.node) for f in found}
        if len(objs) != 1 and not (
                len({json.dumps(cscalar(f.node)) for f in found
                     if not is_container(f.node)}) == 1
                and all(anchor_of(f.node) is None for f in found)
                and "&" not in ptext and len(found) == 1):
            res.fail({"clause": "reported-path-resolves",
                      "why": "several-different-nodes", "mode": mode}, case,
                     "path %r -> %r" % (ptext, [f.node for f in found]))
            return
        got_pos.append([(id(f.parent), repr(refkey(f.parent, f.parentref))
                         if f.parent is not None else "root")
                        for f in found])
    # uniqueness
    # (an anchor-named path such as [&x] stands for every sibling position
    # holding that anchored object: it may appear once per such position)
    import collections
    counts = collections.Counter(texts)
    for ptext, group in zip(texts, got_pos):
        if counts[ptext] > len(set(group)):
            res.fail({"clause": "each-match-reported-once", "mode": mode,
                      "expand": o.expand}, case, "paths %r" % texts)
            return
    # soundness + completeness against the reference search
    exp_keys = [(id(p), repr(refkey(p, r))) for _pos, p, r, _k in exp]
    reported = set(k for group in got_pos for k in group)
    missing = [e for e, k in zip(exp, exp_keys) if k not in reported]
    extra = [t for t, group in zip(texts, got_pos)
             if not any(k in set(exp_keys) for k in group)]
    if missing or extra:
        first = missing[0][3] if missing else "extra"
        res.fail({"clause": "sound-and-complete", "mode": mode,
                  "expand": o.expand,
                  "direction": "missing" if missing else "extra",
                  "kind": first}, case,
                 "expected %r\nreported %r" % ([e[0] for e in exp], texts))
        return
    depth2 = any(len(e[0]) >= 2 for e in exp)
    if exp and (depth2 or "&" in text):
        res.nontrivial()
        if len(res.samples) < 3 and depth2:
            res.samples.append(dict(case, reported=texts))
    res.label("mode:" + mode)
    if o.expand:
        res.label("expanded")


def option_sets():
    out = []
    for values, keys in ((True, False), (True, True), (False, True)):
        for al in (False, True):
            for anc in (False, True):
                for exp in (False, True):
                    for sep in (".", "/"):
                        for kal in (False, True):
                            out.append(Opts(values, keys, al, anc, exp, sep,
                                            kal))
    return out


def expressions():
    return [(m, t, inv) for m in METHODS for t in TERMS
            for inv in (False, True) if not (m == "REGEX" and t == "")]


def docs_for():
    from vp.props.c02 import remap_spec
    base = [s for s in gdocs.specs_upto(3, scalars=[None, 1, 2, 1.5, "a",
                                                   "1", ""])]
    out = []
    for i, s in enumerate(base):
        if i % 5 == 4:
            k = SPECIAL_KEYS[(i // 5) % len(SPECIAL_KEYS)]
            s = remap_spec(s, {"a": k})
        elif i % 5 == 2:
            # negative / zero / wide integer keys, number-like text keys
            # (not "twin-text": keys 1 and '1' in one hash are spelled the
            # same in a path, so no printed path can tell them apart)
            kvs = [v for v in gdocs.KEY_VARIANTS if v[0] != "twin-text"]
            s = gdocs.remap_keys(s, kvs[(i // 5) % len(kvs)][1])
        out.append(s)
    return family() + out


def plan(tier, seed):
    nsh = 48
    return [{"kind": "grid", "part": i, "parts": nsh, "offset": seed,
             "stride": 13 if tier == "quick" else 1} for i in range(nsh)]


def run_shard(shard):
    res = Result()
    dl = Deadline(shard.get("budget_s"))
    specs = docs_for()
    opts = option_sets()
    exprs = expressions()
    nfam = len(family())
    n = 0
    for di in range(shard["part"], len(specs), shard["parts"]):
        if dl.expired():
            res.truncated = True
            break
        text = gdocs.emit(specs[di])
        doc, ok = gdocs.load(text)
        if not ok or doc is None or not is_container(doc) or \
                has_unsupported(doc):
            continue
        stride = 1 if di < nfam else shard["stride"]
        for ei, (m, t, inv) in enumerate(exprs):
            for oi, o in enumerate(opts):
                n += 1
                if (n + shard["offset"]) % stride:
                    continue
                check_search(doc, text, m, t, inv, o, res)
    return res


def replay(case):
    res = Result()
    doc, ok = gdocs.load(case["doc"])
    if not ok:
        raise RuntimeError("replay document does not load")
    d = case["opts"]
    o = Opts(d["search_values"], d["search_keys"],
             d["include_value_aliases"], d["search_anchors"], d["expand"],
             d["sep"], d.get("include_key_aliases", False))
    check_search(doc, case["doc"], case["method"], case["term"],
                 case["inverted"], o, res)
    return [r for _, recs in res.failures.values() for r in recs]
