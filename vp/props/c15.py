"""C15 - evaluating any valid path on any document fails only with YAML Path
errors.  Oracle: returns normally or raises YAMLPathException; anything else
is a violation bucketed by (exception type, innermost yamlpath frame, source
line)."""
import itertools
import json

from vp.runner import Result, Deadline, exc_site
from vp.gen import docs as gdocs
from vp.model.plain import canon

ID = "C15"
LEVEL = "exploration"

# (text, needs_separator)
VOCAB = [
    ("a", 1), ("b", 1), ("1", 1), ("0", 1), ("-1", 1), ("-5", 1), ("9", 1),
    ("[0]", 0), ("[1]", 0), ("[-1]", 0), ("[-5]", 0), ("[9]", 0),
    ("[0:1]", 0), ("[0:2]", 0), ("[1:1]", 0), ("[0:9]", 0), ("[5:9]", 0),
    ("[-2:0]", 0), ("[-9:-1]", 0), ("[2:1]", 0), ("[a:b]", 0), ("[7:7]", 0),
    ("*", 1), ("**", 1), ("a*", 1),
    ("[.=a]", 0), ("[.!=a]", 0), ("[a=1]", 0), ("[.>1]", 0), ("[a<2]", 0),
    ("[.^a]", 0), ("[b%a]", 0), ("[.=~/^a/]", 0), ("[.=~/(/]", 0),
    ("[a=~/[/]", 0), ("[.={[1]:2}]", 0), ("[.=[1]]", 0), ("[.>=(1,)]", 0),
    ("[a.b=1]", 0), ("[.=]", 0),
    ("[has_child(a)]", 0), ("[!has_child(a)]", 0), ("[min()]", 0),
    ("[max()]", 0), ("[min(a)]", 0), ("[max(a)]", 0), ("[!max(a)]", 0),
    ("[unique()]", 0), ("[distinct()]", 0), ("[unique(a)]", 0),
    ("[distinct(a)]", 0), ("[!unique()]", 0), ("[parent()]", 0),
    ("[parent(2)]", 0), ("[parent(9)]", 0), ("[name()]", 0),
    ("(a)", 0), ("(a)+(b)", 0), ("(*)-(a)", 0), ("(**)&(a)", 0),
    ("(**)-(*)", 0),
]

# -- grammar grid: degenerate keyword parameters and search operands ---------
KEYWORDS = ["has_child", "name", "max", "min", "parent", "unique", "distinct"]
PARAMS = ["", ",", "a", "a,", ",a", "a,b", " ", "''", '""', "&", "&a", "&x",
          "0", "1", "-1", "9", "1.5", "x", "*", ".", "a.b", "/", "\\,",
          "a\\,b", "' '", "~", "1,2", "-", "+1", "1e3", "0x1", "١",
          "x\\\"y", "x\\'y", "\\\"", "a\\ b"]
ATTRS = [".", "a", "b", "*", "**", "a.b", "&x", "''", "1", "0", "-1", "a*",
         "\\.", " a"]
OPERATORS = ["=", "==", "!=", "<", ">", "<=", ">=", "^", "$", "%", "=~",
             "!<", "!>", "!^", "!$", "!%", "!=~"]
TERMS = ["", "a", "1", "1.5", "-1", "0", "''", '""', " ", "~", "null", "true",
         "False", "None", "[1]", "{}", "(1,)", "1e999", "-1e999", "nan", "1j",
         "0x10", "1_0", "١", "b'a'", "...", "\"\\\"", "a b", "1 2", "é",
         "9" * 30, "1" + "0" * 400]
REGEX_TERMS = ["/a/", "/(/", "/", "//", "/[/", "/a", "a", "", "/*/", "/(?P<x/",
               "/\\/", "/a/b/", ",a,", "|(|", "/(a|)/", "/^$/", "/./",
               "/(?i)A/", "/a{2,1}/", "/\\1/", "/b{4294967296}/",
               "/" + "(" * 120 + "a" + ")" * 120 + "/"]
PREFIXES = ["", "/a", "/*"]
# key names that are literal syntax for something else in Python or YAML
KEYTEXTS = ["{}", "{1}", "{1: 2}", "\\[\\]", "\\[1, 2\\]", "'[1, 2]'",
            "\\(\\)", "\\(1,\\)", "()", "1.5", "-1.5", "1e3", "1e999",
            "nan", "inf", "True", "true", "False", "None", "null", "~", "1j",
            "0x10", "0o7", "1_0", "b'a'", "...", "''", '""', "' '", "\\ ",
            "-0", "+1", "00", "é", "١", "²",
            "{", "}", "%s", "{0}", "a\\.b", "\\&a", "&a", "!a", "*a", "a*",
            "**a", "a**"]


RULE = ("E1: every document with <= n nodes (n=3 quick, 4 thorough; the C01 "
        "alphabet incl. empty containers, nulls, mixed lists, int keys, "
        "sets) plus a 64-document family of hashes holding hashes/lists x every path of <= 2 segments from a %d-item vocabulary "
        "(negative/out-of-range indexes and implicit indexes, slices past "
        "both ends, invalid regular expressions, container-literal terms, "
        "all keyword searches, collectors) in slash notation; a grammar grid "
        "of every keyword x inversion x %d parameter texts (empty, lone "
        "comma, anchors, numbers, non-ASCII digits), %d attributes x 17 "
        "operators x %d terms / %d regular expressions, and %d key names "
        "that are literal syntax in Python/YAML ({}, [1, 2], 1e999, 1j, "
        "None, ...) over 75 documents; every raw string of <= 3 symbols over "
        "the 29 significant ones and of 4 (thorough 5) over 19 that the "
        "parser accepts, evaluated on two documents; entry points: "
        "required query for every pair, exists() and the optional query "
        "(on a freshly loaded copy) on a seed-offset stride of pairs. E2: "
        "Hypothesis documents (with anchors) x random 1-4 segment paths "
        "from the same vocabulary. Non-trivial = the path contains a "
        "bracketed/keyword/collector/wildcard segment and the document is a "
        "container; distinct by (document, path, entry)." % (
            len(VOCAB), len(PARAMS), len(ATTRS), len(TERMS),
            len(REGEX_TERMS), len(KEYTEXTS)))
ASSUMPTIONS = [
    "paths are restricted to text the parser accepts (invalid path text is "
    "C14's domain); a YAMLPathException from the parser is an allowed "
    "outcome",
    "index-like names of many digits are not given to the optional query: "
    "padding a sequence up to the named index is the documented creation "
    "behaviour and its cost is proportional to the index",
]
EXHAUSTIVE = {"quick": True, "thorough": True}
SHARD_BUDGET_S = {"quick": 100, "thorough": 2400}
HARD_TIMEOUT_S = {"quick": 900, "thorough": 7200}

_PATHS = None

def grammar_paths():
    out = []
    for pre in PREFIXES:
        for kw in KEYWORDS:
            for inv in ("", "!"):
                for prm in PARAMS:
                    out.append("%s[%s%s(%s)]" % (pre or "/", inv, kw, prm)
                               if not pre else
                               "%s[%s%s(%s)]" % (pre, inv, kw, prm))
    for pre in ("/", "/a/", "/*/", "/**/", "/[0]/", "/a/b/"):
        for key in KEYTEXTS:
            out.append(pre + key)
            out.append(pre + key + "/a")
    for pre in PREFIXES[:2]:
        for attr in ATTRS:
            for op in OPERATORS:
                terms = REGEX_TERMS if op.endswith("=~") else TERMS
                for term in terms:
                    out.append("%s[%s%s%s]" % (pre or "/", attr, op, term)
                               if not pre else
                               "%s[%s%s%s]" % (pre, attr, op, term))
    return out


def grammar_docs():
    S = lambda v: ["S", v, None]
    extra = [
        ["M", [["a", ["L", [["M", [["a", S(1)], ["b", S("x")]], None],
                            ["M", [["a", S(None)]], None], S(3)], None]]],
         None],
        ["M", [["a", ["M", [["a", ["M", [["a", S(1)]], None]],
                            ["b", ["M", [["b", S(2)]], None]]], None]]], None],
        ["L", [["L", [S(1), S(2)], None], ["L", [], None]], None],
        ["M", [["a", ["T", ["a", "b"], None]], ["b", S(1.5)]], None],
        ["M", [["a", ["L", [S("a"), S(1), S(None), S(True), S(1.5)], None]]],
         None],
    ]
    # scalars that Python's literal parser chokes on when the searches try
    # to type them: long prose, long operator chains, an int wider than the
    # int-to-str limit
    prose = " ".join("word%d" % i for i in range(1700))
    chain = "/".join(["dir"] * 3200)
    extra += [
        ["M", [["a", ["L", [S(prose), S("x")], None]], ["b", S(chain)]],
         None],
        ["L", [S(chain), S(1), ["M", [["a", S(prose)]], None]], None],
    ]
    return gdocs.specs_upto(2) + family_docs()[::5] + extra


def join(items):
    out = ""
    for text, sep in items:
        if sep or not out:
            out += "/"
        out += text
    return out


def all_paths():
    global _PATHS
    if _PATHS is None:
        out = []
        for n in (1, 2):
            for combo in itertools.product(VOCAB, repeat=n):
                if sum(1 for t, _ in combo if t == "**") > 1:
                    continue
                out.append(join(combo))
        _PATHS = out
    return _PATHS


def _sig(exc, entry):
    etype, frame, src = exc_site(exc)
    return {"clause": "only-yamlpath-exceptions", "exc": etype,
            "frame": frame, "at": src[:70]}


def run_entry(doc, ptext, entry, res, text):
    """Run one entry point; returns True when the doc may have changed."""
    from yamlpath import Processor, YAMLPath
    from yamlpath.exceptions import YAMLPathException
    res.evaluations += 1
    proc = Processor(gdocs.logger(), doc)
    try:
        path = YAMLPath(ptext)
        if entry == "required":
            for _ in proc.get_nodes(path, mustexist=True):
                pass
        elif entry == "exists":
            proc.exists(path)
        elif entry == "optional":
            for _ in proc.get_nodes(path, mustexist=False, default_value="d"):
                pass
        elif entry == "set":
            proc.set_value(path, "v", mustexist=True)
        elif entry == "delete":
            for _ in proc.delete_nodes(path):
                pass
        res.label(entry + ":returned")
    except YAMLPathException:
        res.label(entry + ":YAMLPathException")
    except RecursionError as exc:
        res.fail(_sig(exc, entry), {"doc": text, "path": ptext,
                                    "entry": entry}, "RecursionError")
    except Exception as exc:
        res.fail(_sig(exc, entry), {"doc": text, "path": ptext,
                                    "entry": entry},
                 "%s: %s" % (type(exc).__name__, exc))
    return entry in ("optional", "set", "delete")


def family_docs():
    """Hashes holding hashes/lists: shapes the <= 3-node corpus cannot
    reach (collector operands sharing keys)."""
    S = lambda v: ["S", v, None]
    inner = [["M", [], None], ["M", [["a", S(1)]], None],
             ["M", [["a", S(1)], ["b", S(2)]], None], ["M", [["b", S(2)]], None],
             ["M", [["a", S(2)]], None], ["L", [S(1)], None],
             ["L", [S(1), S(2)], None], S(1)]
    return [["M", [["a", x], ["b", y]], None] for x in inner for y in inner]


def plan(tier, seed):
    shards = []
    nsh = 48
    nmax = 3 if tier == "quick" else 4
    for i in range(nsh):
        shards.append({"kind": "grid", "nmax": nmax, "part": i, "parts": nsh,
                       "offset": seed,
                       "wstride": 6 if tier == "quick" else 12})
    ng = 16 if tier == "quick" else 32
    for i in range(ng):
        shards.append({"kind": "grammar", "part": i, "parts": ng,
                       "offset": seed})
    # raw path text: whatever the parser accepts must be evaluable
    nr = 16
    for i in range(nr):
        shards.append({"kind": "rawtext", "part": i, "parts": nr,
                       "maxlen": 4 if tier == "quick" else 5})
    nh, per = (16, 300) if tier == "quick" else (64, 3000)
    for i in range(nh):
        shards.append({"kind": "hyp", "seed": seed * 1000 + i,
                       "examples": per})
    return shards


def run_shard(shard):
    res = Result()
    dl = Deadline(shard.get("budget_s"))
    if shard["kind"] == "grid":
        specs = gdocs.specs_upto(shard["nmax"]) + family_docs()
        paths = all_paths()
        for di in range(shard["part"], len(specs), shard["parts"]):
            if dl.expired():
                res.truncated = True
                break
            text = gdocs.emit(specs[di])
            doc, ok = gdocs.load(text)
            if not ok or doc is None:
                continue
            container = isinstance(doc, (dict, list)) or \
                type(doc).__name__ == "CommentedSet"
            for pi, ptext in enumerate(paths):
                run_entry(doc, ptext, "required", res, text)
                if container and any(c in ptext for c in "[(*"):
                    res.nt_count += 1
                    if len(res.samples) < 2 and pi % 97 == 5:
                        res.samples.append({"doc": text, "path": ptext})
                k = (di * 7919 + pi + shard["offset"]) % shard["wstride"]
                if k == 0:
                    run_entry(doc, ptext, "exists", res, text)
                elif k == 1:
                    entry = "optional"
                    fresh, _ = gdocs.load(text)
                    run_entry(fresh, ptext, entry, res, text)
                    if container and any(c in ptext for c in "[(*"):
                        res.nt_count += 1
    elif shard["kind"] == "rawtext":
        _run_rawtext(shard, res, dl)
    elif shard["kind"] == "grammar":
        docs = grammar_docs()
        paths = grammar_paths()[shard["part"]::shard["parts"]]
        for di, spec in enumerate(docs):
            if dl.expired():
                res.truncated = True
                break
            text = gdocs.emit(spec)
            doc, ok = gdocs.load(text)
            if not ok or doc is None:
                continue
            container = isinstance(doc, (dict, list))
            for pi, ptext in enumerate(paths):
                entry = ("required", "required", "exists", "required",
                         "required", "exists", "required", "optional")[
                    (pi + di + shard["offset"]) % 8]
                if run_entry(doc, ptext, entry, res, text):
                    doc, _ = gdocs.load(text)
                if container:
                    res.nt_count += 1
                    if len(res.samples) < 2 and (pi + di) % 89 == 7:
                        res.samples.append({"doc": text, "path": ptext,
                                            "entry": entry})
        for ptext in paths:
            res.label("grammar:" + ("keyword" if ptext.endswith(")]")
                                    else "search" if ptext.endswith("]")
                                    else "key-text"))
    else:
        _run_hyp(shard, res, dl)
    return res


RAW_FULL = "./[]()'\"\\&*!=~<>^$%,:+- ab1"     # complete up to length 3
RAW_CORE = "./[]()'\"&*!=,ab1-"                   # complete up to maxlen
RAW_DOCS = ["a:\n  b: 1\n  a:\n    - 1\n    - a: 2\nb:\n  - 1\n  - a\n",
            "-\n  - 1\n  - a\n- a: 1\n  b: a\n"]


def _run_rawtext(shard, res, dl):
    """Every short string over the significant symbols that the parser
    accepts is evaluated: a text that parses is a valid path, so only a
    YAMLPathException may come out (ill-formed segment lists such as the
    one from '(a)b' show up here)."""
    from yamlpath import YAMLPath
    from yamlpath.exceptions import YAMLPathException
    docs = []
    for text in RAW_DOCS:
        doc, ok = gdocs.load(text)
        docs.append((text, doc))
    n = 0
    for alphabet, upto in ((RAW_FULL, 3), (RAW_CORE, shard["maxlen"])):
        for length in range(1, upto + 1):
            if alphabet is RAW_CORE and length <= 3:
                continue
            for combo in itertools.product(alphabet, repeat=length):
                n += 1
                if n % shard["parts"] != shard["part"]:
                    continue
                ptext = "".join(combo)
                try:
                    YAMLPath(ptext).escaped
                except YAMLPathException:
                    res.label("rawtext:rejected-by-parser")
                    continue
                except Exception:
                    res.label("rawtext:parser-crash(see C14)")
                    continue
                for text, doc in docs:
                    run_entry(doc, ptext, "required", res, text)
                res.nt_count += 1
                if len(res.samples) < 1 and length >= 4 and n % 977 == 0:
                    res.samples.append({"doc": RAW_DOCS[0], "path": ptext})
        if dl.expired():
            res.truncated = True
            return


def _run_hyp(shard, res, dl):
    from hypothesis import strategies as st
    from vp.hyp import run_given
    strat = st.tuples(
        gdocs.st_spec(max_leaves=10, with_anchors=True),
        st.lists(st.lists(st.sampled_from(VOCAB), min_size=1, max_size=4),
                 min_size=1, max_size=8),
        st.sampled_from(["required", "optional", "exists"]))

    def body(value):
        spec, plist, entry = value
        text = gdocs.emit(spec)
        for items in plist:
            if sum(1 for t, _ in items if t == "**") > 1:
                continue
            ptext = join(items)
            doc, ok = gdocs.load(text)
            if not ok or doc is None:
                res.label("hyp:unloadable")
                return
            run_entry(doc, ptext, entry, res, text)
            res.nontrivial(key=[text, ptext, entry], sample=False)
            res.label("hyp:segments=%d" % len(items))

    run_given(strat, body, shard["seed"], shard["examples"], dl)
    if dl.expired():
        res.truncated = True


def replay(case):
    res = Result()
    doc, ok = gdocs.load(case["doc"])
    if not ok:
        raise RuntimeError("replay document does not load")
    run_entry(doc, case["path"], case["entry"], res, case["doc"])
    return [r for _, recs in res.failures.values() for r in recs]
