"""C18 - multi-document merges combine documents as the selected mode
defines."""
import itertools
import json
import os
import shutil
import tempfile
from types import SimpleNamespace

from vp.runner import Result, Deadline, exc_site, time_limit, CaseTimeout
from vp.gen import docs as gdocs
from vp.model.plain import canon, merge_bookkeeping, anchors

ID = "C18"
LEVEL = "exploration"
POOL = [
    "a: 1\n", "a: 2\nb:\n  - 1\n", "k:\n  - 1\n", "k:\n  - 2\n",
    "b:\n  - 2\n  - 3\nc:\n  d: 1\n", "c:\n  d: 2\n  e: 3\n",
    "- 1\n", "- 2\n- 3\n", "-\n  id: 1\n  v: a\n", "-\n  id: 1\n  w: b\n",
    "# empty\n", "s:\n  - x\nt: !!set\n  ? p\n", "t: !!set\n  ? q\n",
    "- 1\n- 2\n", "- 2\n- 4\n",
    # dates, anchors and merge keys: what a copy of a document must keep
    "when: 2001-02-03\nat: 2001-12-14T21:59:43.5Z\n",
    "m: &B\n  x: 1\nn:\n  <<: *B\n  y: 2\n",
]
BASE_N = len(POOL)
# scalar anchors of one name with equal and different values, and a neutral
# document: streams of these fold >= 3 documents into one Merger, so anchor
# conflicts are resolved against a left side that earlier steps have changed
POOL += [
    "x: &a 1\ny: *a\n", "p: &a 2\nq:\n  - *a\n", "r: &a 3\ns: *a\n",
    "t: &a 2\nu: *a\n", "v: &a_1 7\nw: *a_1\n", "n: 0\n",
]
ANCHOR_IDX = list(range(BASE_N, len(POOL)))
ANCHOR_POLICIES = ["left", "right", "rename", "stop"]
MODES = ["condense_all", "merge_across", "matrix_merge"]
MIXES = [("deep", "all", "all", "unique"), ("deep", "unique", "deep", "unique"),
         ("deep", "all", "unique", "left"), ("right", "left", "all", "right"),
         ("deep", "right", "all", "unique")]
RULE = ("E1: left and right streams of 1..3 documents (quick; 1..4 thorough "
        "by stride) drawn from a %d-document pool (hashes sharing keys with "
        "list/hash/set values, arrays incl. overlapping ones, Arrays-of-Hashes with an identity "
        "key, an empty document) written to temporary files, x the three "
        "multi-document modes x 5 policy mixes, driven through "
        "get_doc_mergers() + merge_docs(). Oracle (differential on the "
        "driver): the number and order of outputs is fixed by mode and "
        "stream lengths; each expected document is computed by a FRESH "
        "pairwise Merger over documents re-loaded from text for every step "
        "(no object is shared between steps; pairwise correctness is C05's); "
        "a step that raises MergeException must surface as a non-zero "
        "state. Non-trivial = unequal stream lengths, or >= 2 right "
        "documents touching the same key under a concatenating policy, or "
        ">= 2 left documents in matrix mode; distinct by (streams, mode, "
        "mix)." % len(POOL))
ASSUMPTIONS = ["pairwise merge semantics are delegated to C05; this check "
               "only decides how the drivers sequence and share documents"]
EXHAUSTIVE = {"quick": False, "thorough": False}
SHARD_BUDGET_S = {"quick": 100, "thorough": 2400}
HARD_TIMEOUT_S = {"quick": 900, "thorough": 7200}


def stream_text(idxs):
    return "".join("---\n" + POOL[i] for i in idxs)


def config_for(mix, mode):
    from yamlpath.merger import MergerConfig
    h, a, o, s = mix[:4]
    args = SimpleNamespace(hashes=h, arrays=a, aoh=o, sets=s,
                           anchors=mix[4] if len(mix) > 4 else "stop",
                           multi_doc_mode=mode)
    return MergerConfig(gdocs.logger(), args)


def fresh(text):
    doc, ok = gdocs.load(text)
    if not ok:
        raise RuntimeError("pool document does not load: %r" % text)
    return doc


def fold(left_text_or_doc, right_texts, mix, mode):
    """Reference: merge freshly loaded right documents into a left document
    one after the other.  Returns (data, failed)."""
    from yamlpath.merger import Merger
    from yamlpath.merger.exceptions import MergeException
    from yamlpath.exceptions import YAMLPathException
    left = fresh(left_text_or_doc) if isinstance(left_text_or_doc, str) \
        else left_text_or_doc
    failed = False
    for rt in right_texts:
        # a new Merger (and configuration) for every step: nothing but the
        # merged data itself is carried from one step to the next
        merger = Merger(gdocs.logger(), left, config_for(mix, mode))
        try:
            merger.merge_with(fresh(rt))
        except (MergeException, YAMLPathException):
            failed = True
            if mode != "condense_all":
                break
        left = merger.data
    return left, failed


def expected(lidx, ridx, mix, mode):
    ltexts = [POOL[i] for i in lidx]
    rtexts = [POOL[i] for i in ridx]
    failed = False
    if mode == "condense_all":
        data, failed = fold(ltexts[0], ltexts[1:] + rtexts, mix, mode)
        docs = [data]
    elif mode == "merge_across":
        docs = []
        for i in range(max(len(ltexts), len(rtexts))):
            if failed:
                # the driver stops at the first failing pair; remaining left
                # documents are passed through untouched
                if i < len(ltexts):
                    docs.append(fresh(ltexts[i]))
                continue
            if i >= len(rtexts):
                docs.append(fresh(ltexts[i]))
            elif i >= len(ltexts):
                docs.append(fresh(rtexts[i]))
            else:
                data, f = fold(ltexts[i], [rtexts[i]], mix, mode)
                failed = failed or f
                docs.append(data)
    else:
        docs = []
        for lt in ltexts:
            data, f = fold(lt, rtexts, mix, mode)
            failed = failed or f
            docs.append(data)
    return [view(d) for d in docs], failed


def view(doc):
    """What is compared per output document: typed data, the names of its
    anchors and - for hashes using merge keys - which keys are their own."""
    return [canon(doc), sorted(set(anchors(doc).values())),
            merge_bookkeeping(doc)]


def check_case(lidx, ridx, mix, mode, res, tmpdir):
    from yamlpath.common import Parsers
    from yamlpath.commands import yaml_merge
    res.evaluations += 1
    case = {"left": list(lidx), "right": list(ridx), "mix": list(mix),
            "mode": mode, "left_text": stream_text(lidx),
            "right_text": stream_text(ridx)}
    lfile = os.path.join(tmpdir, "l.yaml")
    rfile = os.path.join(tmpdir, "r.yaml")
    with open(lfile, "w") as fh:
        fh.write(stream_text(lidx))
    with open(rfile, "w") as fh:
        fh.write(stream_text(ridx))
    try:
        exp_docs, exp_failed = expected(lidx, ridx, mix, mode)
    except Exception as exc:
        res.label("reference-crash(see C05):" + type(exc).__name__)
        return
    cfg = config_for(mix, mode)
    yaml = Parsers.get_yaml_editor()
    try:
        with time_limit(20):
            lhs_docs, ok = yaml_merge.get_doc_mergers(gdocs.logger(), yaml,
                                                      cfg, lfile)
            if not ok:
                raise RuntimeError("left stream failed to load")
            rc = yaml_merge.merge_docs(gdocs.logger(), yaml, cfg, lhs_docs,
                                       rfile)
            got_docs = [view(m.data) for m in lhs_docs]
    except CaseTimeout:
        res.fail({"clause": "terminates", "mode": mode}, case,
                 "no result within 20 s")
        return
    except Exception as exc:
        etype, frame, src = exc_site(exc)
        res.fail({"clause": "no-crash", "exc": etype, "frame": frame}, case,
                 "%s: %s" % (etype, exc))
        return
    if exp_failed:
        if rc == 0:
            res.fail({"clause": "failed-step-gives-nonzero-state",
                      "mode": mode}, case, "state 0 although a step failed")
        else:
            res.label("failed-step:" + mode)
        return
    if rc != 0:
        res.fail({"clause": "unexpected-nonzero-state", "mode": mode}, case,
                 "state %d" % rc)
        return
    if len(got_docs) != len(exp_docs):
        res.fail({"clause": "document-count", "mode": mode}, case,
                 "expected %d documents, got %d" % (len(exp_docs),
                                                    len(got_docs)))
        return
    for i, (e, g) in enumerate(zip(exp_docs, got_docs)):
        if e != g:
            res.fail({"clause": "document-content", "mode": mode,
                      "which": "first" if i == 0 else "later"}, case,
                     "document %d\nexpected %s\ngot      %s" % (
                         i, json.dumps(e), json.dumps(g)))
            return
    if len(lidx) != len(ridx) or len(ridx) >= 2 or \
            (mode == "matrix_merge" and len(lidx) >= 2):
        res.nontrivial()
        if len(res.samples) < 3 and len(ridx) >= 2 and len(lidx) >= 2:
            res.samples.append(case)
    res.label("mode:" + mode)
    res.label("lens:%dx%d" % (len(lidx), len(ridx)))


def all_streams(maxlen, idxs=None):
    idxs = range(BASE_N) if idxs is None else idxs
    for k in range(1, maxlen + 1):
        for combo in itertools.product(idxs, repeat=k):
            yield combo


def plan(tier, seed):
    nsh = 32
    shards = [{"kind": "enum", "part": i, "parts": nsh, "offset": seed,
               "maxlen": 3 if tier == "quick" else 4,
               "stride": 2600 if tier == "quick" else 9000}
              for i in range(nsh)]
    shards += [{"kind": "anchors", "part": i, "parts": 16, "offset": seed,
                "stride": 11 if tier == "quick" else 1}
               for i in range(16)]
    return shards


def _run_anchor_streams(shard, res, dl, tmpdir):
    lefts = list(all_streams(2, ANCHOR_IDX))
    rights = list(all_streams(3, ANCHOR_IDX))
    n = 0
    for ls in lefts:
        for rs in rights:
            for mode in MODES:
                for pol in ANCHOR_POLICIES:
                    n += 1
                    if n % shard["parts"] != shard["part"]:
                        continue
                    if (n // shard["parts"] + shard["offset"]) \
                            % shard["stride"]:
                        continue
                    if dl.expired():
                        res.truncated = True
                        return
                    check_case(ls, rs, MIXES[0] + (pol,), mode, res, tmpdir)
                    res.label("anchors:" + pol)


def run_shard(shard):
    res = Result()
    dl = Deadline(shard.get("budget_s"))
    tmpdir = tempfile.mkdtemp(prefix="vp-c18-")
    if shard["kind"] == "anchors":
        try:
            _run_anchor_streams(shard, res, dl, tmpdir)
        finally:
            shutil.rmtree(tmpdir, ignore_errors=True)
        return res
    try:
        streams = list(all_streams(shard["maxlen"]))
        n = 0
        total = len(streams)
        # pairs by stride, deterministic in (seed, shard)
        for li in range(total):
            for ri in range((li * 7 + shard["offset"]) % shard["stride"],
                            total, shard["stride"]):
                n += 1
                if n % shard["parts"] != shard["part"]:
                    continue
                if dl.expired():
                    res.truncated = True
                    return res
                mode = MODES[n % 3]
                mix = MIXES[(n // 3) % len(MIXES)]
                check_case(streams[li], streams[ri], mix, mode, res, tmpdir)
        # targeted: short streams exhaustively for every mode and mix
        short = list(all_streams(2))
        m = 0
        for ls in short:
            for rs in short:
                m += 1
                if m % shard["parts"] != shard["part"]:
                    continue
                if (m // shard["parts"] + shard["offset"]) % 4:
                    continue
                for mode in MODES:
                    check_case(ls, rs, MIXES[m % len(MIXES)], mode, res,
                               tmpdir)
    finally:
        shutil.rmtree(tmpdir, ignore_errors=True)
    return res


def replay(case):
    res = Result()
    tmpdir = tempfile.mkdtemp(prefix="vp-c18-")
    try:
        check_case(tuple(case["left"]), tuple(case["right"]),
                   tuple(case["mix"]), case["mode"], res, tmpdir)
    finally:
        shutil.rmtree(tmpdir, ignore_errors=True)
    return [r for _, recs in res.failures.values() for r in recs]
