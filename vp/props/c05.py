"""C05 - merging two documents yields the policy-defined result for every
option mix; impossible merges are merge errors, never crashes."""
import itertools
import json
from types import SimpleNamespace

from vp.runner import Result, Deadline, exc_site
from vp.gen import docs as gdocs
from vp.model import merge as mm
from vp.model.plain import canon

ID = "C05"
LEVEL = "exploration"

HASHES = ["deep", "left", "right"]
ARRAYS = ["all", "left", "right", "unique"]
AOH = ["all", "left", "right", "unique", "deep"]
SETS = ["left", "right", "unique"]
ALL_POLICIES = list(itertools.product(HASHES, ARRAYS, AOH, SETS))

RULE = ("E1: ordered pairs (L, R) from the %s-document corpus = every "
        "document <= 3 nodes over keys {a,b,1} and scalars {null,1,2,1.5,"
        "'a','1',''} (no booleans: 1/true compare equal in Python) plus a "
        "hand-shaped family of Arrays-of-Hashes (identity key present / "
        "absent / repeated), sets, hashes of lists and type clashes; quick: "
        "family x family under 12 policies rotating through all 180 "
        "hash x array x aoh x set combinations, plus a seed-offset stride of "
        "all pairs under all 180; a per-path rule (left/right) or identity "
        "key override on 1 case in 4 (half of those again with upper-case "
        "keys A/B). Oracle: reference merge semantics in "
        "validity form (key-set union, per-key recursion, relative key "
        "orders, prefix/append rules for unique arrays) written from the "
        "statement and --help texts; structurally impossible merges must "
        "raise MergeException; any other exception is a violation. "
        "Non-trivial = L and R share a key or both are containers of the "
        "same kind, and the outcome is not simply R; distinct by "
        "(L, R, policy).")
ASSUMPTIONS = ["type clashes under LEFT/RIGHT policies, scalars over "
               "containers, empty right-hand lists and values equal across "
               "types are Unspecified (counted)"]
EXHAUSTIVE = {"quick": False, "thorough": False}
SHARD_BUDGET_S = {"quick": 100, "thorough": 2400}
HARD_TIMEOUT_S = {"quick": 900, "thorough": 7200}


def S(v):
    return ["S", v, None]


def family():
    recs = [["M", [["a", S(1)]], None],
            ["M", [["a", S(1)], ["b", S(2)]], None],
            ["M", [["a", S(2)]], None],
            ["M", [["b", S(1)]], None],
            ["M", [["a", S(1)], ["b", ["L", [S(1)], None]]], None],
            ["M", [["a", S(2)], ["b", S(3)]], None],
            ["M", [], None]]
    out = []
    lists = [["L", [r], None] for r in recs]
    lists += [["L", [r, q], None] for r in recs[:5] for q in recs[:6]]
    # identities that are different Strings but the same number once typed
    r110 = ["M", [["a", S("1.10")], ["b", S(1)]], None]
    r11 = ["M", [["a", S("1.1")], ["b", S(2)]], None]
    lists += [["L", [r110], None], ["L", [r11], None],
              ["L", [r110, r11], None]]
    for lst in lists:
        out.append(lst)
        out.append(["M", [["a", lst]], None])
    sets = [["T", [], None], ["T", ["a"], None], ["T", ["a", "b"], None],
            ["T", ["b", "c"], None]]
    for st in sets:
        out.append(st)
        out.append(["M", [["a", st]], None])
    simple = [["L", [S(1), S(2)], None], ["L", [S(2), S(3)], None],
              ["L", [S(1), S(1)], None], ["L", [S("a")], None],
              ["L", [["L", [S(1)], None]], None], ["L", [], None]]
    for lst in simple:
        out.append(["M", [["a", lst]], None])
        out.append(["M", [["a", S(1)], ["b", lst]], None])
        out.append(["M", [["b", lst], ["a", S(2)]], None])
    out += [["M", [["a", ["M", [["a", ["L", [S(1)], None]]], None]]], None],
            ["M", [["a", ["M", [["a", S(1)], ["b", S(2)]], None]],
                   ["b", S(1)]], None],
            ["M", [["b", S(2)], ["a", ["M", [["b", S(3)], ["c", S(4)]],
                                      None]]], None],
            ["M", [["c", S(1)], ["a", S(2)], ["d", S(3)]], None],
            # two hashes holding the same key with equal (shared-object)
            # scalars: a rule for one path must not leak to the other
            ["M", [["a", ["M", [["a", S(1)]], None]],
                   ["b", ["M", [["a", S(1)]], None]]], None],
            ["M", [["a", ["M", [["a", S(5)]], None]],
                   ["b", ["M", [["a", S(6)]], None]]], None],
            ["M", [["a", ["M", [["a", S(None)], ["b", S(1)]], None]],
                   ["b", ["M", [["a", S(None)], ["b", S(1)]], None]]], None],
            ["M", [["a", ["M", [["a", S("x")], ["b", S(7)]], None]],
                   ["b", ["M", [["a", S("y")], ["b", S(8)]], None]]], None],
            ["M", [["d", S(9)], ["b", S(8)], ["c", S(7)], ["e", S(6)]], None],
            S(5), S("x"), S(None)]
    return out


_CORPUS = None


def corpus():
    global _CORPUS
    if _CORPUS is None:
        base = [s for s in gdocs.specs_upto(
            3, scalars=[None, 1, 2, 1.5, "a", "1", ""])]
        fam = family()
        _CORPUS = (fam, base)
    return _CORPUS


def make_merger(doc, pol):
    from yamlpath.merger import Merger, MergerConfig
    args = SimpleNamespace(hashes=pol.hashes, arrays=pol.arrays, aoh=pol.aoh,
                           sets=pol.sets, anchors="stop")
    kw = {}
    if pol.rules:
        kw["rules"] = {"/" + "/".join(k): v for k, v in pol.rules.items()}
    if pol.keys:
        kw["keys"] = {"/" + "/".join(k): v for k, v in pol.keys.items()}
    cfg = MergerConfig(gdocs.logger(), args, **kw)
    return Merger(gdocs.logger(), doc, cfg)


def shape(cl, cr):
    return "%s<-%s" % (mm.kind(cl), mm.kind(cr))


def check_merge(ltext, rtext, pol, res):
    from yamlpath.merger.exceptions import MergeException
    ldoc, ok1 = gdocs.load(ltext)
    rdoc, ok2 = gdocs.load(rtext)
    if not (ok1 and ok2) or ldoc is None or rdoc is None:
        return
    cl, cr = canon(ldoc), canon(rdoc)
    res.evaluations += 1
    case = {"lhs": ltext, "rhs": rtext, "policy": pol.as_dict()}
    try:
        pat = mm.expected(cl, cr, pol)
        want = "ok"
    except mm.MergeErr:
        want = "error"
        pat = None
    except mm.Unspec:
        want = None
        pat = None
    try:
        merger = make_merger(ldoc, pol)
        merger.merge_with(rdoc)
        got = "ok"
    except MergeException as exc:
        got = "error"
    except Exception as exc:
        etype, frame, src = exc_site(exc)
        res.fail({"clause": "never-a-crash", "exc": etype, "frame": frame,
                  "at": src[:60]}, case, "%s: %s" % (etype, exc))
        return
    if want is None:
        res.label("unspecified")
        return
    sh = shape(cl, cr)
    if want == "error":
        if got != "error":
            res.fail({"clause": "impossible-merge-is-an-error", "shape": sh},
                     case, "merged to %s" % json.dumps(canon(merger.data)))
        else:
            res.label("merge-error-as-defined")
        return
    if got == "error":
        res.fail({"clause": "unexpected-merge-error", "shape": sh}, case,
                 "a result was defined")
        return
    actual = canon(merger.data)
    why = mm.check(pat, actual)
    if why:
        res.fail({"clause": "policy-defined-result", "shape": sh,
                  "why": _why_class(why)}, case,
                 "%s\nresult %s" % (why, json.dumps(actual)))
        return
    nontrivial = pat[0] != "EXACT" or (mm._sort_sets(pat[1]) != mm._sort_sets(cr)
                                       and mm.kind(cl) != "S")
    if nontrivial:
        res.nontrivial()
        if len(res.samples) < 3 and pat[0] != "EXACT":
            res.samples.append(case)
    res.label("policy:h=%s" % pol.hashes)
    res.label("policy:a=%s" % pol.arrays)
    res.label("policy:o=%s" % pol.aoh)
    res.label("policy:s=%s" % pol.sets)
    res.label("shape:" + sh)


def _why_class(why):
    import re
    why = re.sub(r"at key [^:]*: ", "nested: ", why)
    nested = why.startswith("nested: ")
    while why.startswith("nested: "):
        why = why[len("nested: "):]
    for prefix, name in (("expected a list of", "aoh-record-count"),
                         ("expected a list", "not-a-list"),
                         ("expected a hash", "not-a-hash"),
                         ("expected", "different-value"),
                         ("key set differs", "key-set"),
                         ("left-hand key order", "left-key-order"),
                         ("new right-hand key order", "new-key-order"),
                         ("left elements", "unique-prefix"),
                         ("appended part", "unique-appended"),
                         ("right element", "unique-missing")):
        if why.startswith(prefix):
            return ("nested-" if nested else "") + name
    return "other"


def _blame(pol, cl, cr):
    """Coarse class: which non-default policies are in force."""
    parts = []
    if pol.hashes != "deep":
        parts.append("hashes=" + pol.hashes)
    if pol.arrays != "all":
        parts.append("arrays=" + pol.arrays)
    if pol.aoh != "all":
        parts.append("aoh=" + pol.aoh)
    if pol.sets != "unique":
        parts.append("sets=" + pol.sets)
    if pol.rules:
        parts.append("rule")
    if pol.keys:
        parts.append("key")
    return ",".join(parts) or "defaults"


# -- left-hand hashes that take keys through a YAML merge key ----------------
MK_LEFT = ("base: &b\n  k: %s\n  s: 1\nu:\n  <<: *b\n  own: 1\n"
           "w:\n  <<: *b\nz: 0\n")
# the same with u overriding the inherited key s by a value of its own
MK_LEFT_OVERRIDE = MK_LEFT.replace("  own: 1\n", "  s: 8\n  own: 1\n")
MK_LEFT_VALUES = ["{x: 1}", "[1]", "[{id: 1, v: 1}]", "5", "!!set {m}"]
MK_RIGHTS = ["u: {k: {y: 2}}\n", "u: {k: {x: 9}}\n", "u: {k: [2]}\n",
             "u: {k: [{id: 1, v: 2}]}\n", "u: {k: 7}\n", "u: {own: 2}\n",
             "u: {new: 1}\n", "u: {s: 3}\n", "u: {k: !!set {n}}\n",
             "w: {k: {y: 2}}\nu: {own: 3}\n"]


def is_map_like(node):
    return hasattr(node, "items")


def check_mergekey_frame(ltext, rtext, pol, res):
    """Frame clause only ("left-hand content not named by the right-hand
    document keeps its value"): the right-hand document names keys of ONE
    hash that inherits from an anchored hash through a merge key.  The
    anchored hash itself and every other hash inheriting from it are not
    named, so they read the same before and after - in memory and in the
    serialised result."""
    import io
    from yamlpath.common import Parsers
    from yamlpath.merger.exceptions import MergeException
    ldoc, ok1 = gdocs.load(ltext)
    rdoc, ok2 = gdocs.load(rtext)
    if not (ok1 and ok2):
        raise RuntimeError("merge-key family text does not load")
    if pol.hashes == "right":
        # RIGHT replaces the root hash whole: nothing of the left survives
        res.label("mergekey:root-replaced")
        return
    named = [str(k) for k in rdoc]
    frame = [k for k in ("base", "u", "w", "z") if k not in named]
    before = {k: canon(ldoc[k]) for k in frame}
    # own keys of u that the right-hand document does not name
    own_u = {}
    if "u" in named and is_map_like(rdoc["u"]):
        own_u = {k: canon(ldoc["u"][k]) for k in ("own", "s")
                 if k in ldoc["u"] and k not in rdoc["u"]
                 and (k == "own" or "s: 8" in ltext)}
    res.evaluations += 1
    case = {"lhs": ltext, "rhs": rtext, "policy": pol.as_dict(),
            "mergekey": True}
    try:
        merger = make_merger(ldoc, pol)
        merger.merge_with(rdoc)
    except MergeException:
        res.label("mergekey:merge-error")
        return
    except Exception as exc:
        etype, frame_, src = exc_site(exc)
        res.fail({"clause": "never-a-crash", "exc": etype, "frame": frame_,
                  "at": src[:60]}, case, "%s: %s" % (etype, exc))
        return
    views = [("memory", merger.data)]
    try:
        yaml = Parsers.get_yaml_editor()
        merger.prepare_for_dump(yaml, "out.yaml")
        buf = io.StringIO()
        yaml.dump(merger.data, buf)
        again, ok = gdocs.load(buf.getvalue())
        if ok:
            views.append(("reloaded", again))
        else:
            res.label("mergekey:result-does-not-reload")
    except Exception:
        res.label("mergekey:result-does-not-dump")
    for view, data in views:
        for k, was in own_u.items():
            now = canon(data["u"][k]) if "u" in data and k in data["u"] \
                else None
            if now != was:
                res.fail({"clause": "unnamed-left-content-keeps-its-value",
                          "shape": "own-key-beside-merge-key:%s" % k,
                          "view": view}, case, "u.%s was %s is %s" % (
                              k, json.dumps(was), json.dumps(now)))
                return
        for k in frame:
            now = canon(data[k]) if k in data else None
            if now != before[k]:
                res.fail({"clause": "unnamed-left-content-keeps-its-value",
                          "shape": "merge-key-sibling:%s" % k, "view": view},
                         case, "%s was %s is %s" % (
                             k, json.dumps(before[k]), json.dumps(now)))
                return
    res.nontrivial()
    res.label("mergekey:frame-kept")


def policy_for(i, with_rules=True):
    h, a, o, s = ALL_POLICIES[i % len(ALL_POLICIES)]
    pol = mm.Policy(h, a, o, s)
    if with_rules and i % 4 == 3:
        k = (i // 4) % 6
        if k == 0:
            pol.rules = {("a",): "left"}
        elif k == 1:
            pol.rules = {("a",): "right"}
        elif k == 2:
            pol.rules = {("a", "a"): "left"}
        elif k == 3:
            pol.rules = {("b", "a"): "left"}
        elif k == 4:
            pol.rules = {("a", "b"): "left", ("b",): "right"}
        else:
            pol.keys = {("a",): "b"}
    return pol


def plan(tier, seed):
    shards = []
    nsh = 48
    for i in range(nsh):
        shards.append({"kind": "fam", "part": i, "parts": nsh, "offset": seed,
                       "npol": 12 if tier == "quick" else 60})
    for i in range(nsh):
        shards.append({"kind": "all", "part": i, "parts": nsh, "offset": seed,
                       "stride": 1500 if tier == "quick" else 60})
    for i in range(4):
        shards.append({"kind": "mergekey", "part": i, "parts": 4})
    return shards


def run_shard(shard):
    res = Result()
    dl = Deadline(shard.get("budget_s"))
    fam, base = corpus()
    if shard["kind"] == "mergekey":
        n = 0
        for kv in MK_LEFT_VALUES:
            for rt in MK_RIGHTS:
                for j in range(len(ALL_POLICIES)):
                    n += 1
                    if n % shard["parts"] != shard["part"]:
                        continue
                    if dl.expired():
                        res.truncated = True
                        return res
                    check_mergekey_frame(MK_LEFT % kv, rt,
                                         policy_for(j, with_rules=False), res)
                    if j % 9 == 0:
                        check_mergekey_frame(MK_LEFT_OVERRIDE % kv, rt,
                                             policy_for(j, with_rules=False),
                                             res)
        return res
    if shard["kind"] == "fam":
        texts = [gdocs.emit(s) for s in fam]
        # the same family with upper-case keys: rule and identity-key paths
        # are case-sensitive like the keys they name
        up = {"a": "A", "b": "B"}
        pairs = [[k, v] for k, v in up.items()]
        utexts = [gdocs.emit(gdocs.remap_keys(s, pairs)) for s in fam]

        def upper(pol):
            q = mm.Policy(pol.hashes, pol.arrays, pol.aoh, pol.sets)
            q.rules = {tuple(up.get(x, x) for x in k): v
                       for k, v in pol.rules.items()}
            q.keys = {tuple(up.get(x, x) for x in k): up.get(v, v)
                      for k, v in pol.keys.items()}
            return q
        n = 0
        for li, lt in enumerate(texts):
            for ri, rt in enumerate(texts):
                n += 1
                if n % shard["parts"] != shard["part"]:
                    continue
                if dl.expired():
                    res.truncated = True
                    return res
                for j in range(shard["npol"]):
                    pol = policy_for(n * 7 + j * 31 + shard["offset"])
                    check_merge(lt, rt, pol, res)
                    if (pol.rules or pol.keys) and (n + j) % 2 == 0:
                        check_merge(utexts[li], utexts[ri], upper(pol), res)
                        res.label("upper-case-keys-with-rules")
    else:
        allspecs = fam + base
        total = len(allspecs)
        n = 0
        texts = {}
        for li in range(total):
            for ri in range(total):
                n += 1
                if (n + shard["offset"]) % shard["stride"]:
                    continue
                if (n // shard["stride"]) % shard["parts"] != shard["part"]:
                    continue
                if dl.expired():
                    res.truncated = True
                    return res
                for idx in (li, ri):
                    if idx not in texts:
                        texts[idx] = gdocs.emit(allspecs[idx])
                for j in range(len(ALL_POLICIES)):
                    check_merge(texts[li], texts[ri],
                                policy_for(j, with_rules=False), res)
    return res


def replay(case):
    res = Result()
    p = case["policy"]
    pol = mm.Policy(p["hashes"], p["arrays"], p["aoh"], p["sets"],
                    {tuple(k.strip("/").split("/")): v
                     for k, v in p.get("rules", {}).items()},
                    {tuple(k.strip("/").split("/")): v
                     for k, v in p.get("keys", {}).items()})
    if case.get("mergekey"):
        check_mergekey_frame(case["lhs"], case["rhs"], pol, res)
    else:
        check_merge(case["lhs"], case["rhs"], pol, res)
    return [r for _, recs in res.failures.values() for r in recs]
