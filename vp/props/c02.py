"""C02 - every result locates its node: parent/parentref, ancestry chain and
the reported path all re-resolve to the very node returned."""
import json

from vp.runner import Result, Deadline, exc_site
from vp.gen import docs as gdocs, paths as gpaths
from vp.model.plain import is_set, is_seq, is_map, anchor_of
from vp import real

ID = "C02"
LEVEL = "exploration"

SPECIAL_KEYS = ["a*b", "&a", "*", "a*[b", "a\\\\b", "/a", "a.b", "a/b", "a[b", "a]b", "a(b", "a)b", "a'b", 'a"b',
                "a b", "a^b", "a$b", "a%b", "a\\b",
                # a literal * together with a backslash (C:\\logs\\*.log)
                "t\\*", "a\\b*c"]
NAMES = ["star", "lead-amp", "lone-star", "star-bracket", "two-backslashes",
         "lead-slash", "dot", "slash", "lbracket", "rbracket", "lparen", "rparen", "squote",
         "dquote", "space", "caret", "dollar", "percent", "backslash",
         "backslash-star", "backslash-in-star-key"]

KW = "keyword"
EXTRA = [
    (KW, False, "HAS_CHILD", ["a"]), (KW, True, "HAS_CHILD", ["a"]),
    (KW, False, "MIN", []), (KW, False, "MAX", []),
    (KW, False, "MIN", ["a"]), (KW, False, "MAX", ["a"]),
    (KW, True, "MAX", ["a"]),
    (KW, False, "UNIQUE", []), (KW, False, "DISTINCT", []),
    (KW, False, "UNIQUE", ["a"]), (KW, False, "DISTINCT", ["a"]),
    (KW, False, "PARENT", []), (KW, False, "PARENT", ["2"]),
]
VOCAB = [s for s in gpaths.VOCAB if s[0] != "slice"] + EXTRA

RULE = ("E1: documents of <= 3 nodes (C01 alphabet) whose keys a/b are "
        "replaced, per document, by keys containing one escapable character "
        "each (13 variants . / [ ] ( ) ' \" space ^ $ %% \\, 5 variants moving the keys onto -1 / 0 / 12 / '-1' / 'b c', plus the plain "
        "variant) x every path of <= 2 segments from a %d-item vocabulary "
        "(C01 fragment + has_child/min/max/unique/distinct/parent) and 102 "
        "three-segment paths <key|index>/<*|**>/<keyword|key|index>; three "
        "anchored documents x 20 paths that climb with parent(n) from a "
        "node named by its anchor; E2: "
        "Hypothesis documents with anchors/aliases x derived paths. Every "
        "non-virtual result of the required query is checked for (a) "
        "parent[parentref] is node, (b) ancestry chain from the root, (c) "
        "str(result.path) re-resolves to exactly that position, (d) the "
        "same in slash notation, (e) paths are not mutated afterwards. "
        "Non-trivial = result depth >= 2, or its key needs an escape, or "
        "the path has a keyword/traversal/search/wildcard/pass-through "
        "step; distinct by (document, path, result index)." % len(VOCAB))
ASSUMPTIONS = ["virtual results (slices, collectors, name()) are excluded as "
               "the property states"]
EXHAUSTIVE = {"quick": True, "thorough": True}
SHARD_BUDGET_S = {"quick": 100, "thorough": 2400}
HARD_TIMEOUT_S = {"quick": 900, "thorough": 7200}


def remap_spec(spec, mapping):
    kind = spec[0]
    if kind == "M":
        return ["M", [[mapping.get(k, k) if isinstance(k, str) else k,
                       remap_spec(v, mapping)] for k, v in spec[1]],
                spec[2] if len(spec) > 2 else None]
    if kind == "L":
        return ["L", [remap_spec(v, mapping) for v in spec[1]],
                spec[2] if len(spec) > 2 else None]
    if kind == "T":
        return ["T", [mapping.get(m, m) if isinstance(m, str) else m
                      for m in spec[1]], spec[2] if len(spec) > 2 else None]
    return spec


def remap_seg(seg, mapping):
    if seg[0] == "key":
        return ("key", mapping.get(seg[1], seg[1]))
    if seg[0] == "search" and seg[3] != ".":
        return seg[:3] + (mapping.get(seg[3], seg[3]),) + seg[4:]
    if seg[0] == KW and seg[3]:
        return seg[:3] + ([mapping.get(p, p) for p in seg[3]],)
    return seg


def write_param(text):
    """Keyword parameters are unescaped twice: once by the path parser and
    once by SearchKeywordTerms.parameters.  Brackets/parentheses only matter
    to the path parser; quotes, commas, spaces and backslashes matter to the
    parameter splitter and must survive the first pass."""
    out = ""
    for c in text:
        if c in "()[]":
            out += "\\" + c
        elif c in "'\", \\":
            out += "\\\\" + "\\" + c
        else:
            out += c
    return out


def variant_mapping(v):
    if v >= len(SPECIAL_KEYS):
        return {}
    return {"a": SPECIAL_KEYS[v], "b": SPECIAL_KEYS[(v + 5) % len(SPECIAL_KEYS)]}


def render(segs, sep, style=0):
    segs2 = []
    for s in segs:
        if s[0] == KW:
            s = s[:3] + ([write_param(p) for p in s[3]],)
        segs2.append(s)
    return gpaths.render(segs2, sep, style)


def depth_of(nc):
    return len(nc.ancestry or [])


def check_results(doc, text, ptext, res, label_variant=None):
    """Run the query, check every non-virtual result."""
    from yamlpath import YAMLPath
    from yamlpath.enums import PathSeparators
    from yamlpath.exceptions import YAMLPathException
    proc = real.processor(doc)
    qpath = YAMLPath(ptext)
    q_before = str(qpath)
    case = {"doc": text, "path": ptext}
    res.evaluations += 1
    try:
        results = []
        stamped = []
        for nc in proc.get_nodes(qpath, mustexist=True):
            results.append(nc)
            stamped.append(str(nc.path) if nc.path is not None else None)
    except YAMLPathException:
        res.label("query:YAMLPathException")
        return
    except Exception as exc:
        etype, frame, _ = exc_site(exc)
        res.label("crash:%s@%s(see C15)" % (etype, frame))
        return
    kinds = _kinds(ptext)
    if str(qpath) != q_before:
        res.fail({"clause": "e-query-path-mutated", "segs": kinds}, case,
                 "%r became %r" % (q_before, str(qpath)))
    for idx, nc in enumerate(results):
        if type(nc.node) is list or real.is_nodecoords(nc.node) or \
                type(nc.parent) is list or \
                any(type(link[0]) is list for link in (nc.ancestry or [])):
            # slices / collectors, and nodes reached through such a virtual
            # list (anywhere up their ancestry), designate no single
            # document position
            res.label("virtual-skipped")
            continue
        sub = dict(case, result=idx)
        # (e) immutability of the reported path
        now = str(nc.path) if nc.path is not None else None
        if now != stamped[idx]:
            res.fail({"clause": "e-result-path-mutated", "segs": kinds}, sub,
                     "at yield %r, afterwards %r" % (stamped[idx], now))
            continue
        # (a) parent / parentref
        ok_a = _check_parent(doc, nc)
        if ok_a is not True:
            res.fail({"clause": "a-parent-ref", "segs": kinds,
                      "why": ok_a}, sub,
                     "node=%r parent=%r parentref=%r" % (
                         nc.node, nc.parent, nc.parentref))
            continue
        # (b) ancestry
        ok_b = _check_ancestry(doc, nc)
        if ok_b is not True:
            res.fail({"clause": "b-ancestry", "segs": kinds, "why": ok_b},
                     sub, "ancestry=%r parent=%r parentref=%r" % (
                         [(type(a).__name__, r) for a, r in nc.ancestry],
                         nc.parent, nc.parentref))
            continue
        # (c)/(d) re-resolution of the reported path in both notations
        want = real.nc_ident(nc)
        for clause, sep in (("c-requery", None),
                            ("d-requery-other-separator", "flip")):
            try:
                rp = YAMLPath(stamped[idx])
                if sep == "flip":
                    rp = YAMLPath(rp)
                    rp.separator = (PathSeparators.FSLASH
                                    if rp.separator is PathSeparators.DOT
                                    else PathSeparators.DOT)
                    rp = YAMLPath(str(rp))
                rtext = str(rp)
                again = list(proc.get_nodes(rp, mustexist=True))
            except YAMLPathException as exc:
                res.fail({"clause": clause, "segs": kinds,
                          "why": "requery-raises"}, sub,
                         "reported path %r: %s" % (stamped[idx], exc))
                break
            except Exception as exc:
                res.fail({"clause": clause, "segs": kinds,
                          "why": "requery-crashes"}, sub,
                         "reported path %r: %s: %s" % (
                             stamped[idx], type(exc).__name__, exc))
                break
            idents = [real.nc_ident(x) for x in again]
            if "&" in (stamped[idx] or ""):
                # the path names a node by its anchor: one result per place
                # the anchored object (or an anchored ancestor) is aliased
                bad = (not idents or want not in idents
                       or any(x.node is not nc.node for x in again))
            else:
                bad = idents != [want]
            if bad:
                res.fail({"clause": clause, "segs": kinds,
                          "why": "wrong-nodes"}, sub,
                         "reported path %r (as %r) returned %r, wanted the "
                         "node %r" % (stamped[idx], rtext,
                                      [x.node for x in again], nc.node))
                break
        nontrivial = depth_of(nc) >= 2 or any(
            c in ptext for c in "[*(\\'\"")
        if nontrivial:
            res.nontrivial()
            if len(res.samples) < 3 and depth_of(nc) >= 2:
                res.samples.append({"doc": text, "path": ptext,
                                    "reported": stamped[idx]})
        if label_variant is not None and stamped[idx] and "\\" in stamped[idx]:
            res.label("escaped-key-requeried:" + label_variant)
        res.label("results-checked")


def _kinds(ptext):
    try:
        from yamlpath import YAMLPath
        from vp.model import pathast
        return gpaths.kinds(pathast.from_parsed(YAMLPath(ptext).escaped))
    except Exception:
        return "?"


def _check_parent(doc, nc):
    if nc.parent is None:
        return True if nc.node is doc else "no-parent-but-not-root"
    parent, ref = nc.parent, nc.parentref
    if is_set(parent):
        if ref in parent and ref == nc.node:
            return True
        return "set-does-not-hold-member"
    try:
        held = parent[ref]
    except Exception:
        return "parent-not-indexable-by-ref"
    return True if held is nc.node else "parent[ref]-is-another-node"


def _check_ancestry(doc, nc):
    anc = nc.ancestry or []
    if nc.parent is None:
        return True if not anc else "root-with-ancestry"
    if not anc:
        return "empty-ancestry-for-non-root"
    if anc[0][0] is not doc:
        return "chain-does-not-start-at-root"
    for i in range(len(anc) - 1):
        cont, ref = anc[i]
        try:
            nxt = cont[ref]
        except Exception:
            if getattr(cont, "merge", None):
                return True     # YAML merge key entry: (a) and (c) only
            return "chain-link-not-indexable"
        if nxt is not anc[i + 1][0]:
            return "chain-link-broken"
    last_c, last_r = anc[-1]
    if last_c is not nc.parent:
        return "last-entry-not-parent"
    if is_set(last_c):
        return True if last_r == nc.parentref else "last-ref-differs"
    if is_seq(last_c):
        try:
            if int(last_r) % len(last_c) != int(nc.parentref) % len(last_c):
                return "last-ref-differs"
        except Exception:
            return "last-ref-not-an-index"
        return True
    return True if last_r == nc.parentref else "last-ref-differs"


def _alias_siblings(nc):
    """Positions inside the same parent holding the same anchored object."""
    out = set()
    parent = nc.parent
    if is_map(parent):
        for k, v in parent.items():
            if v is nc.node or (anchor_of(k) is not None
                                and anchor_of(k) == anchor_of(nc.parentref)):
                out.add((id(parent), repr(real.refkey(parent, k))))
    elif is_seq(parent):
        for i, v in enumerate(parent):
            if v is nc.node:
                out.add((id(parent), repr(("i", i))))
    out.add(real.nc_ident(nc))
    return out


# -- planning ----------------------------------------------------------------
_PATHS = {}


KEYVARS = [v for v in gdocs.KEY_VARIANTS if v[0] != "twin-text"]
NVAR = len(SPECIAL_KEYS) + 1 + len(KEYVARS)


def keyvar_of(variant):
    """Key variant (negative/zero/wide int keys, number-like text) or None."""
    i = variant - len(SPECIAL_KEYS) - 1
    return KEYVARS[i] if i >= 0 else None


def paths_for(variant):
    if variant not in _PATHS:
        kv = keyvar_of(variant)
        mapping = kv[2] if kv else variant_mapping(variant)
        out = []
        combos = [c for n in (1, 2)
                  for c in gpaths.enum_paths_exact(n, VOCAB)]
        # three segments: a concrete step, a wildcard / traversal, then a
        # keyword or key - the handlers that probe the following segment
        # with the very path object they later hand on
        for first in (("key", "a"), ("key", "b"), ("index", 0)):
            for second in (("all",), ("traverse",)):
                for third in EXTRA + [("key", "a"), ("index", 0)]:
                    combos.append([first, second, third])
        for combo in combos:
                segs = [remap_seg(s, mapping) for s in combo]
                sep = "/" if (len(out) % 2) else "."
                out.append(render(segs, sep, style=len(out) % 3))
        _PATHS[variant] = out
    return _PATHS[variant]


def plan(tier, seed):
    shards = []
    nsh = 48
    for i in range(nsh):
        shards.append({"kind": "grid", "nmax": 3, "part": i, "parts": nsh,
                       "stride": 1, "offset": seed})
    if tier == "thorough":
        for i in range(nsh):
            shards.append({"kind": "grid", "nmin": 4, "nmax": 4, "part": i,
                           "parts": nsh, "stride": 4, "offset": seed})
    else:
        for i in range(nsh):
            shards.append({"kind": "grid", "nmin": 4, "nmax": 4, "part": i,
                           "parts": nsh, "stride": 40, "offset": seed})
    shards.append({"kind": "anchored"})
    nh, per = (16, 200) if tier == "quick" else (64, 2000)
    for i in range(nh):
        shards.append({"kind": "hyp", "seed": seed * 1000 + i,
                       "examples": per})
    return shards


def run_shard(shard):
    res = Result()
    dl = Deadline(shard.get("budget_s"))
    if shard["kind"] == "grid":
        specs = []
        for n in range(shard.get("nmin", 1), shard["nmax"] + 1):
            specs.extend(gdocs.specs_exact(n))
        nvar = NVAR
        for di in range(shard["part"], len(specs), shard["parts"]):
            if dl.expired():
                res.truncated = True
                break
            variant = (di + shard["offset"]) % nvar
            kv = keyvar_of(variant)
            if kv:
                spec = gdocs.remap_keys(specs[di], kv[1])
            else:
                spec = remap_spec(specs[di], variant_mapping(variant))
            text = gdocs.emit(spec)
            doc, ok = gdocs.load(text)
            if not ok:
                raise RuntimeError("document does not load: %r" % text)
            if doc is None:
                continue
            vname = kv[0] if kv else (NAMES[variant] if variant < len(NAMES)
                                      else "plain")
            for pi, ptext in enumerate(paths_for(variant)):
                if shard["stride"] > 1 and \
                        (di * 31 + pi + shard["offset"]) % shard["stride"]:
                    continue
                check_results(doc, text, ptext, res, vname)
    elif shard["kind"] == "anchored":
        for text, plist in ANCHORED_CASES:
            doc, ok = gdocs.load(text)
            if not ok:
                raise RuntimeError("anchored doc does not load: %r" % text)
            for ptext in plist:
                check_results(doc, text, ptext, res, "anchor-segment")
    else:
        _run_hyp(shard, res, dl)
    return res


# keyword segments climbing away from a node that was named by its anchor
ANCHORED_CASES = [
    ("a:\n  b:\n    c: 1\n    d: &v 2\n",
     ["a.b[&v]", "a.b[&v][parent()]", "a.b[&v][parent(2)]",
      "a.b[&v][parent()][parent()]", "/a/b[&v][parent(2)]",
      "/a/b[&v][parent()][parent()]", "a.*[&v][parent(2)]",
      "**[&v][parent(2)]", "a.b[&v][parent(3)]"]),
    ("l:\n  - - &v 1\n    - 2\n  - - 3\n",
     ["l[0][&v]", "l[0][&v][parent()]", "l[0][&v][parent(2)]",
      "/l[0][&v][parent(2)]", "l.*[&v][parent(2)]",
      "l[0][&v][parent()][parent()][parent()]"]),
    ("&k top:\n  in: &v x\n  o: *v\n",
     ["&k", "&k.in", "top[&v][parent()]", "top[&v][parent(2)]",
      "/&k[&v][parent()]"]),
    # has_child(&anchor): records of an Array-of-Hashes (with null elements
    # before, between and after them) and of a Hash that hold an anchored
    # or aliased child
    ("s:\n  - ~\n  - n: &d db\n  - ~\n  - m: *d\n  - o: 1\n  - ~\n"
     "h:\n  p:\n    n: *d\n  q:\n    z: 2\n",
     ["s[has_child(&d)]", "/s[has_child(&d)]", "s[!has_child(&d)]",
      "s[has_child(&d)].*", "h.*[has_child(&d)]", "/h/*[has_child(&d)]",
      "h.*[!has_child(&d)]", "h[has_child(&d)]", "s[has_child(&d)][parent()]"]),
]


def _run_hyp(shard, res, dl):
    from hypothesis import strategies as st
    from vp.hyp import run_given
    keys = ["a", "b", 1, "1", "id"] + SPECIAL_KEYS

    @st.composite
    def doc_and_paths(draw):
        spec = draw(gdocs.st_spec(max_leaves=10, keys=keys,
                                  with_anchors=True))
        text = gdocs.emit(spec)
        doc, ok = gdocs.load(text)
        if not ok or doc is None:
            return (text, None, [])
        plist = draw(st.lists(gpaths.st_path_for(doc), min_size=1,
                              max_size=5))
        extras = draw(st.lists(st.sampled_from(EXTRA), max_size=2))
        styles = draw(st.lists(st.integers(0, 5), min_size=len(plist),
                               max_size=len(plist)))
        out = []
        for segs, sty in zip(plist, styles):
            segs = list(segs) + (list(extras) if sty % 2 else [])
            out.append(render(segs, "/" if sty >= 3 else ".", sty % 3))
        return (text, doc, out)

    def body(value):
        text, doc, plist = value
        if doc is None:
            res.label("hyp:unloadable")
            return
        for ptext in plist:
            before = res.nt_count
            check_results(doc, text, ptext, res)
            if res.nt_count > before:
                res.nt_count = before
                res.nontrivial(key=[text, ptext], sample=False)

    run_given(doc_and_paths(), body, shard["seed"], shard["examples"], dl)
    if dl.expired():
        res.truncated = True


def replay(case):
    res = Result()
    doc, ok = gdocs.load(case["doc"])
    if not ok:
        raise RuntimeError("replay document does not load")
    check_results(doc, case["doc"], case["path"], res)
    return [r for _, recs in res.failures.values() for r in recs]
