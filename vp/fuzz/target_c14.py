#!/venv/bin/python
"""Coverage-guided fuzz target for C14 (atheris / libFuzzer).

    target_c14.py FINDINGS.json [libFuzzer args...] CORPUS_DIR

Input bytes -> (separator mode, text) through FuzzedDataProvider; oracle =
vp.props.c14.check_text (every parse view returns well-typed values or raises
YAMLPathException).  Collect-all: a failing input never aborts the campaign;
each new signature (exception type, innermost yamlpath frame, source line) is
written, with its smallest input so far, to FINDINGS.json at once (atexit
handlers do not run under libFuzzer).
"""
import json
import os
import sys

import atheris

with atheris.instrument_imports(include=["yamlpath"]):
    import yamlpath  # noqa: F401
    from yamlpath import YAMLPath  # noqa: F401

from vp.props import c14          # noqa: E402
from vp.runner import Result      # noqa: E402

FINDINGS_PATH = None
FOUND = {}


def one_input(data):
    fdp = atheris.FuzzedDataProvider(data)
    text = fdp.ConsumeUnicodeNoSurrogates(96)
    res = Result()
    c14.check_text(text, res, "atheris")
    if not res.failures:
        return
    changed = False
    for key, (count, recs) in res.failures.items():
        rec = recs[0]
        old = FOUND.get(key)
        if old is None or len(rec["case"]["text"]) < len(old["case"]["text"]):
            FOUND[key] = rec
            changed = True
    if changed and FINDINGS_PATH:
        tmp = FINDINGS_PATH + ".tmp"
        with open(tmp, "w") as fh:
            json.dump(list(FOUND.values()), fh)
        os.replace(tmp, FINDINGS_PATH)


def main():
    global FINDINGS_PATH
    FINDINGS_PATH = sys.argv[1]
    argv = [sys.argv[0]] + sys.argv[2:]
    atheris.Setup(argv, one_input)
    atheris.Fuzz()


if __name__ == "__main__":
    main()
