"""Hypothesis glue: seeded, database-free, collect-all runs.

The property body never raises for a property failure: it records the failure
in the shard's Result and returns, so one shallow defect cannot end the search
(Hypothesis stops at the first failing example otherwise).  Shrinking is done
afterwards by the runner with the property's own `shrink`.
"""
import hypothesis
from hypothesis import HealthCheck, Phase, settings
from hypothesis.stateful import run_state_machine_as_test


def run_given(strategy, body, seed, max_examples, deadline=None):
    """Run body(value) on max_examples draws; stops early when deadline
    (vp.runner.Deadline) expires.  Returns number of executed bodies."""
    count = [0]

    @hypothesis.seed(seed)
    @settings(max_examples=max_examples, database=None, deadline=None,
              phases=[Phase.generate], report_multiple_bugs=False,
              suppress_health_check=[HealthCheck.too_slow,
                                     HealthCheck.data_too_large,
                                     HealthCheck.large_base_example],
              derandomize=False)
    @hypothesis.given(strategy)
    def test(value):
        if deadline is not None and deadline.expired():
            return
        count[0] += 1
        body(value)

    test()
    return count[0]


def run_machine(machine_cls, seed, max_examples, steps):
    st = settings(max_examples=max_examples, stateful_step_count=steps,
                  database=None, deadline=None, phases=[Phase.generate],
                  report_multiple_bugs=False,
                  suppress_health_check=[HealthCheck.too_slow,
                                         HealthCheck.data_too_large,
                                         HealthCheck.large_base_example,
                                         HealthCheck.filter_too_much],
                  derandomize=False)
    run_state_machine_as_test(hypothesis.seed(seed)(machine_cls), settings=st)
