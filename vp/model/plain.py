"""Plain-data views of ruamel trees: canonical typed form, positions, alias
cells and structural snapshots used by frame conditions."""
import datetime


def is_map(n):
    return isinstance(n, dict)


def is_seq(n):
    return isinstance(n, list)


def is_set(n):
    return isinstance(n, (set, frozenset)) or type(n).__name__ == "CommentedSet"


def is_container(n):
    return is_map(n) or is_seq(n) or is_set(n)


def anchor_of(node):
    anc = getattr(node, "anchor", None)
    if anc is None:
        return None
    return getattr(anc, "value", None)


def cscalar(v):
    """Canonical typed scalar: distinguishes 1 / True / 1.0 / "1"."""
    if v is None:
        return ["n"]
    if isinstance(v, bool) or type(v).__name__ == "ScalarBoolean":
        return ["b", bool(v)]
    if isinstance(v, int):
        return ["i", int(v)]
    if isinstance(v, float):
        return ["f", float(v)]
    if isinstance(v, str):
        return ["s", str(v)]
    if isinstance(v, (datetime.date, datetime.datetime)):
        return ["d", v.isoformat()]
    # a foreign object (e.g. a NodeCoords left inside the document by broken
    # code): its repr can be cyclic / exponential, so only the type is kept
    return ["?", type(v).__name__]


def canon(node):
    """Canonical, JSON-able, order-preserving and type-exact form."""
    if is_map(node):
        return ["M", [[cscalar(k), canon(v)] for k, v in node.items()]]
    if is_seq(node):
        return ["L", [canon(v) for v in node]]
    if is_set(node):
        return ["T", [cscalar(m) for m in node]]
    return cscalar(node)


def children(node):
    """(ref, child) pairs; for sets ref is the member itself."""
    if is_map(node):
        return list(node.items())
    if is_seq(node):
        return list(enumerate(node))
    if is_set(node):
        return [(m, m) for m in node]
    return []


def refkey(parent, ref):
    """Hashable, type-exact encoding of a reference inside a parent."""
    if is_seq(parent):
        return ("i", int(ref))
    tag = "k" if is_map(parent) else "m"
    c = cscalar(ref)
    return (tag,) + tuple(c)


def positions(doc):
    """Pre-order list of (path, node, parent, ref); path is a tuple of
    refkeys.  Aliased containers are visited at every place they occur."""
    out = []

    def walk(node, path, parent, ref, depth):
        out.append((path, node, parent, ref))
        if depth > 40:
            return
        for r, child in children(node):
            walk(child, path + (refkey(node, r),), node, r, depth + 1)

    walk(doc, (), None, None, 0)
    return out


def alias_cells(doc):
    """Groups of positions (paths) that hold one and the same anchored
    object.  Only nodes carrying an anchor are considered aliases."""
    groups = {}
    for path, node, _parent, _ref in positions(doc):
        if anchor_of(node) is not None:
            groups.setdefault(id(node), []).append(path)
    return sorted(sorted(g) for g in groups.values())


def anchors(doc):
    """{path: anchor name} for values, plus {path+('key',): name} for keys."""
    out = {}
    for path, node, parent, ref in positions(doc):
        name = anchor_of(node)
        if name is not None:
            out[path] = name
        if is_map(parent):
            kname = anchor_of(ref)
            if kname is not None:
                out[path + ("@key",)] = kname
    return out


def merge_bookkeeping(doc):
    """For every hash using a YAML merge key: which keys are its own (what a
    dump writes out) and how many hashes it merges in."""
    out = []
    for path, node, _parent, _ref in positions(doc):
        if is_map(node) and getattr(node, "merge", None):
            out.append([repr(path), len(node.merge),
                        [cscalar(k) for k, _ in node.non_merged_items()]])
    return out


def snapshot(doc):
    """Everything a frame condition compares."""
    return {
        "data": canon(doc),
        "anchors": sorted((repr(k), v) for k, v in anchors(doc).items()),
        "cells": [[repr(p) for p in g] for g in alias_cells(doc)],
        "merge": merge_bookkeeping(doc),
    }


def get_at(doc, path):
    """Resolve a positions()-style path; raises KeyError when absent."""
    node = doc
    for step in path:
        tag = step[0]
        if tag == "i":
            if not is_seq(node) or not -len(node) <= step[1] < len(node):
                raise KeyError(step)
            node = node[step[1]]
        elif tag == "k":
            if not is_map(node):
                raise KeyError(step)
            for k, v in node.items():
                if tuple(cscalar(k)) == tuple(step[1:]):
                    node = v
                    break
            else:
                raise KeyError(step)
        else:
            if not is_set(node):
                raise KeyError(step)
            for m in node:
                if tuple(cscalar(m)) == tuple(step[1:]):
                    node = m
                    break
            else:
                raise KeyError(step)
    return node
