"""Reference merge semantics in validity form (C05, C10, C11, C18).

Works on canonical typed data (vp.model.plain.canon):
    ["M", [[ckey, cval], ...]]   ["L", [...]]   ["T", [cmember, ...]]
    scalars ["n"] ["b", v] ["i", v] ["f", v] ["s", v]

expected(L, R, policy, root=True) returns a *pattern*:
    ("EXACT", canon)
    ("MAP", lkeys, newkeys, {json(ckey): pattern})      order validity
    ("UNIQ", Lcanon_items, Rcanon_items)                 unique-append validity
or raises MergeErr (a MergeException is the defined outcome) or Unspec.
check(pattern, actual) returns None when the actual canon satisfies it, else
a short reason.
"""
import json


class MergeErr(Exception):
    """The policy-defined outcome is a merge error."""


class Unspec(Exception):
    """The documentation does not fix the outcome."""


def kind(c):
    return c[0] if c[0] in ("M", "L", "T") else "S"


def jk(ckey):
    return json.dumps(ckey)


class Policy:
    def __init__(self, hashes="deep", arrays="all", aoh="all", sets="unique",
                 rules=None, keys=None):
        self.hashes, self.arrays, self.aoh, self.sets = (hashes, arrays, aoh,
                                                         sets)
        self.rules = rules or {}      # {("a",): "left"}  RHS key paths
        self.keys = keys or {}        # {("a",): "id"}

    def mode(self, which, path):
        rule = self.rules.get(tuple(path))
        if rule:
            return rule
        return getattr(self, which)

    def as_dict(self):
        return {"hashes": self.hashes, "arrays": self.arrays,
                "aoh": self.aoh, "sets": self.sets,
                "rules": {"/" + "/".join(k): v
                          for k, v in self.rules.items()},
                "keys": {"/" + "/".join(k): v for k, v in self.keys.items()}}


def is_aoh(c):
    return kind(c) == "L" and len(c[1]) > 0 and kind(c[1][0]) == "M"


def _cross_equal(a, b):
    """Python-equal but differently typed scalars (1 / true / 1.0)."""
    if kind(a) != "S" or kind(b) != "S" or a == b:
        return False
    if a[0] in "bif" and b[0] in "bif" and len(a) > 1 and len(b) > 1:
        return float(a[1]) == float(b[1])
    return False


def _any_cross_equal(xs, ys):
    return any(_cross_equal(x, y) for x in xs for y in ys)


def expected(L, R, pol, root=True, path=()):
    """Pattern for merging canonical R into canonical L."""
    if root:
        return _root(L, R, pol)
    return _nested(L, R, pol, path)


def _root(L, R, pol):
    kl, kr = kind(L), kind(R)
    if kl != kr and pol.rules.get(()):
        # a rule naming the merge point binds to the right-hand root node;
        # when that root is converted (hash/set/scalar into a list, list into
        # a set) the documentation does not say whether the rule follows it
        raise Unspec("rule on a root that is converted to the left kind")
    if kr == "M":
        if kl == "M":
            mode = pol.mode("hashes", ())
            if mode == "left":
                return ("EXACT", L)
            if mode == "right":
                return ("EXACT", R)
            return _deep(L, R, pol, ())
        if kl == "L":
            # the right-hand root hash becomes the single record: its rule
            # paths stay rooted at /
            return _lists(L, ["L", [R]], pol, (), recpaths=[()])
        raise MergeErr("hash into %s" % kl)
    if kr == "L":
        if kl == "L":
            return _lists(L, R, pol, ())
        if kl == "T":
            if any(kind(x) != "S" for x in R[1]):
                raise Unspec("non-scalar list members into a set")
            return _sets(L, ["T", _dedupe(R[1])], pol, ())
        raise MergeErr("list into %s" % kl)
    if kr == "T":
        if kl == "L":
            return _lists(L, ["L", list(R[1])], pol, ())
        if kl == "M":
            if pol.rules or pol.keys:
                raise Unspec("per-path rules for Set members merged as keys")
            return _deep(L, ["M", [[m, ["n"]] for m in R[1]]], pol, ())
        if kl == "T":
            return _sets(L, R, pol, ())
        raise MergeErr("set into scalar")
    # scalar RHS
    if kl == "L":
        return ("EXACT", ["L", L[1] + [R]])
    if kl == "T":
        return _sets(L, ["T", [R]], pol, ())
    if kl == "M":
        raise MergeErr("scalar into hash")
    return ("EXACT", R)


def _dedupe(items):
    out = []
    for x in items:
        if x not in out:
            out.append(x)
    return out


def _deep(L, R, pol, path):
    lkeys = [k for k, _ in L[1]]
    ldict = {jk(k): v for k, v in L[1]}
    rkeys = [k for k, _ in R[1]]
    if _any_cross_equal(lkeys, rkeys):
        raise Unspec("keys equal across types")
    pats = {}
    newkeys = []
    for k, rv in R[1]:
        if jk(k) in ldict:
            pats[jk(k)] = _nested(ldict[jk(k)], rv, pol,
                                  path + (_keytext(k),))
        else:
            newkeys.append(k)
            pats[jk(k)] = ("EXACT", rv)
    for k, lv in L[1]:
        if jk(k) not in pats:
            pats[jk(k)] = ("EXACT", lv)
    return ("MAP", lkeys, newkeys, pats)


def _keytext(ckey):
    return str(ckey[1]) if len(ckey) > 1 else "null"


def _nested(lv, rv, pol, path):
    kl, kr = kind(lv), kind(rv)
    if kr == "M":
        mode = pol.mode("hashes", path)
        if mode == "left":
            if kl != "M":
                raise Unspec("type clash under LEFT")
            return ("EXACT", lv)
        if mode == "right":
            if kl != "M":
                raise Unspec("type clash under RIGHT")
            return ("EXACT", rv)
        if kl != "M":
            raise MergeErr("hash into %s at %r" % (kl, path))
        return _deep(lv, rv, pol, path)
    if kr == "T":
        mode = pol.mode("sets", path)
        if kl != "T":
            if mode in ("left", "right"):
                raise Unspec("type clash under LEFT/RIGHT")
            raise MergeErr("set into %s at %r" % (kl, path))
        return _sets(lv, rv, pol, path)
    if kr == "L":
        which = "aoh" if is_aoh(rv) else "arrays"
        mode = pol.mode(which, path)
        if kl != "L":
            if mode in ("left", "right"):
                raise Unspec("type clash under LEFT/RIGHT")
            raise MergeErr("list into %s at %r" % (kl, path))
        return _lists(lv, rv, pol, path)
    # scalar RHS overrides, unless a rule for this very path says otherwise
    rule = pol.rules.get(tuple(path))
    if kl != "S":
        raise Unspec("scalar over a container")
    if rule == "left":
        return ("EXACT", lv)
    return ("EXACT", rv)


def _lists(L, R, pol, path, recpaths=None):
    if len(R[1]) == 0:
        # an empty list is a plain Array: "right" replaces, every other mode
        # has nothing to add (README: arrays "right" = RHS overwrites LHS)
        return ("EXACT", R if pol.mode("arrays", path) == "right" else L)
    if is_aoh(R):
        if any(kind(x) != "M" for x in R[1]):
            raise Unspec("mixed Array-of-Hashes")
        mode = pol.mode("aoh", path)
        if mode == "left":
            return ("EXACT", L)
        if mode == "right":
            return ("EXACT", R)
        if mode == "all":
            return ("EXACT", ["L", L[1] + R[1]])
        if mode == "unique":
            out = list(L[1])
            for rec in R[1]:
                if _any_cross_equal([rec], out):
                    raise Unspec("records equal across types")
                if rec not in out:
                    out.append(rec)
            return ("EXACT", ["L", out])
        # deep: pair by identity key
        for rk in pol.rules:
            if len(rk) > len(path) and tuple(rk[:len(path)]) == tuple(path):
                # /a/b with a an Array-of-Hashes reaches key b of every
                # record (YAML Path pass-through); this model addresses
                # records by index only, so it does not decide such rules
                raise Unspec("rule path passes through an Array-of-Hashes")
        idkey = pol.keys.get(tuple(path))
        first = R[1][0]
        if idkey is None:
            if not first[1]:
                raise MergeErr("record without an identity key")
            idk = first[1][0][0]
        else:
            idk = ["s", idkey]
        out = [x for x in L[1]]
        pats = [("EXACT", x) for x in out]
        for ri, rec in enumerate(R[1]):
            rpath = recpaths[ri] if recpaths else path + ("[%d]" % ri,)
            rd = {jk(k): v for k, v in rec[1]}
            if jk(idk) not in rd:
                raise MergeErr("record lacks identity key")
            idv = rd[jk(idk)]
            hit = None
            for i, lrec in enumerate(out):
                if kind(lrec) != "M":
                    continue
                ld = {jk(k): v for k, v in lrec[1]}
                if jk(idk) in ld:
                    if _cross_equal(ld[jk(idk)], idv) or (
                            ld[jk(idk)] != idv and kind(idv) == "S"
                            and kind(ld[jk(idk)]) == "S"
                            and len(idv) > 1 and len(ld[jk(idk)]) > 1
                            and str(idv[1]) == str(ld[jk(idk)][1])):
                        # 1 vs "1": identity values are compared after
                        # typing their text; no document promises either way
                        raise Unspec("identity values equal across types")
                    if ld[jk(idk)] == idv:
                        hit = i
                        break
            if hit is None:
                out.append(rec)
                pats.append(("EXACT", rec))
            else:
                if pats[hit][0] != "EXACT":
                    raise Unspec("two right-hand records share an identity")
                pats[hit] = _deep(out[hit], rec, pol, rpath)
        return ("SEQ", pats)
    mode = pol.mode("arrays", path)
    if mode == "left":
        return ("EXACT", L)
    if mode == "right":
        return ("EXACT", R)
    if mode == "all":
        return ("EXACT", ["L", L[1] + R[1]])
    if _any_cross_equal(L[1] + R[1], L[1] + R[1]):
        raise Unspec("elements equal across types")
    return ("UNIQ", L[1], R[1])


def _sets(L, R, pol, path):
    mode = pol.mode("sets", path)
    if mode == "left":
        return ("EXACT", L)
    if mode == "right":
        return ("EXACT", R)
    if _any_cross_equal(L[1] + R[1], L[1] + R[1]):
        raise Unspec("members equal across types")
    return ("EXACT", ["T", L[1] + [m for m in R[1] if m not in L[1]]])


# -- checking ----------------------------------------------------------------
def _sort_sets(c):
    if kind(c) == "T":
        return ["T", sorted(c[1], key=json.dumps)]
    if kind(c) == "M":
        return ["M", [[k, _sort_sets(v)] for k, v in c[1]]]
    if kind(c) == "L":
        return ["L", [_sort_sets(v) for v in c[1]]]
    return c


def check(pattern, actual):
    """None when `actual` (canon) satisfies the pattern, else a reason."""
    tag = pattern[0]
    if tag == "EXACT":
        if _sort_sets(pattern[1]) != _sort_sets(actual):
            return "expected %s got %s" % (json.dumps(pattern[1]),
                                           json.dumps(actual))
        return None
    if tag == "SEQ":
        if kind(actual) != "L" or len(actual[1]) != len(pattern[1]):
            return "expected a list of %d records, got %s" % (
                len(pattern[1]), json.dumps(actual))
        for p, a in zip(pattern[1], actual[1]):
            why = check(p, a)
            if why:
                return why
        return None
    if tag == "UNIQ":
        _, litems, ritems = pattern
        if kind(actual) != "L":
            return "expected a list got %s" % json.dumps(actual)
        items = actual[1]
        if items[:len(litems)] != litems:
            return "left elements are not an unchanged prefix: %s" % \
                json.dumps(actual)
        tail = items[len(litems):]
        allowed = [x for x in ritems if x not in litems]
        pos = 0
        for x in tail:
            while pos < len(allowed) and allowed[pos] != x:
                pos += 1
            if pos >= len(allowed):
                return "appended part is not right-minus-left in right " \
                    "order: %s" % json.dumps(actual)
            pos += 1
        for x in ritems:
            if x not in items:
                return "right element %s missing from %s" % (
                    json.dumps(x), json.dumps(actual))
        return None
    if tag == "FM":        # frame hash: exactly these keys in this order
        if kind(actual) != "M" or [k for k, _ in actual[1]] != \
                [k for k, _ in pattern[1]]:
            return "outside the merge point: keys %s became %s" % (
                json.dumps([k for k, _ in pattern[1]]), json.dumps(
                    [k for k, _ in actual[1]] if kind(actual) == "M"
                    else actual))
        for (k, p), (_, a) in zip(pattern[1], actual[1]):
            why = check(p, a)
            if why:
                return "under %s: %s" % (jk(k), why)
        return None
    if tag == "FL":        # frame list: same length, element-wise
        if kind(actual) != "L" or len(actual[1]) != len(pattern[1]):
            return "outside the merge point: list %s" % json.dumps(actual)
        for i, (p, a) in enumerate(zip(pattern[1], actual[1])):
            why = check(p, a)
            if why:
                return "under [%d]: %s" % (i, why)
        return None
    if tag == "MAP":
        _, lkeys, newkeys, pats = pattern
        if kind(actual) != "M":
            return "expected a hash got %s" % json.dumps(actual)
        akeys = [k for k, _ in actual[1]]
        if sorted(map(jk, akeys)) != sorted(pats.keys()):
            return "key set differs: expected %s got %s" % (
                sorted(pats.keys()), sorted(map(jk, akeys)))
        if [k for k in akeys if k in lkeys] != lkeys:
            return "left-hand key order changed: %s" % json.dumps(akeys)
        if [k for k in akeys if k in newkeys] != newkeys:
            return "new right-hand key order changed: %s" % json.dumps(akeys)
        for k, v in actual[1]:
            why = check(pats[jk(k)], v)
            if why:
                return "at key %s: %s" % (jk(k), why)
        return None
    raise ValueError(tag)
