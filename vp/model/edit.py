"""Plain-data expectations for edits (set / delete / create), computed by
walking an *unmodified* copy of the document.

Positions are identified by (id(parent object), refkey) so that aliasing is
handled by construction: an edit inside a container that is aliased in several
places shows up wherever that container appears.
"""
from vp.model.plain import (is_map, is_seq, is_set, cscalar, refkey,
                            anchor_of, children)


def poskey(parent, ref):
    return (id(parent), repr(refkey(parent, ref)))


def canon_without(doc, delset):
    """Canonical form of doc with every child position in delset removed."""
    def walk(node):
        if is_map(node):
            return ["M", [[cscalar(k), walk(v)] for k, v in node.items()
                          if poskey(node, k) not in delset]]
        if is_seq(node):
            return ["L", [walk(v) for i, v in enumerate(node)
                          if poskey(node, i) not in delset]]
        if is_set(node):
            return ["T", [cscalar(m) for m in node
                          if poskey(node, m) not in delset]]
        return cscalar(node)
    return walk(doc)


def canon_replace(doc, replace, alias_ids, newval):
    """Canonical form of doc where every position in `replace` - and every
    position holding an object whose id is in alias_ids (aliases of a matched
    anchored node) - holds the canonical scalar `newval`."""
    def val(parent, ref, child):
        if poskey(parent, ref) in replace or id(child) in alias_ids:
            return newval
        return walk(child)

    def walk(node):
        if is_map(node):
            return ["M", [[cscalar(k), val(node, k, v)]
                          for k, v in node.items()]]
        if is_seq(node):
            return ["L", [val(node, i, v) for i, v in enumerate(node)]]
        if is_set(node):
            out = []
            for m in node:
                if poskey(node, m) in replace or id(m) in alias_ids:
                    c = newval
                else:
                    c = cscalar(m)
                if c not in out:        # a set holds each value once
                    out.append(c)
            return ["T", out]
        return cscalar(node)
    return walk(doc)


def flatten_matches(nodes):
    """Model results -> list of real positions (slice results expanded)."""
    out = []
    for n in nodes:
        if n.virt is not None:
            out.extend(n.virt)
        else:
            out.append(n)
    return out


def sorted_set_canon(c):
    """Sets are unordered: compare their members as sorted lists."""
    if isinstance(c, list) and c and c[0] == "T":
        return ["T", sorted(c[1], key=repr)]
    if isinstance(c, list) and c and c[0] == "M":
        return ["M", [[k, sorted_set_canon(v)] for k, v in c[1]]]
    if isinstance(c, list) and c and c[0] == "L":
        return ["L", [sorted_set_canon(v) for v in c[1]]]
    return c
