"""Reference evaluator for the C01 path fragment, written from the README's
"Supported YAML Path Segments" list.  Independent of yamlpath.processor.

Input: a loaded document and a list of model segments
    ("key", text) ("index", int) ("slice", a, b) ("anchor", name)
    ("search", inverted, METHOD, attr, term) ("all",) ("traverse",)
Output: ordered list of N (located nodes); raises Unspecified where the
documentation does not fix the answer, ModelError where the documented
outcome is a YAMLPathException.
"""
from vp.model import compare
from vp.model.compare import Unspecified
from vp.model.plain import (is_map, is_seq, is_set, anchor_of, refkey)


class ModelError(Exception):
    """The documented outcome is a YAML Path error."""


class N:
    """A located node: value, parent container, ref inside it, root path."""
    __slots__ = ("v", "p", "r", "path", "virt")

    def __init__(self, v, p, r, path, virt=None):
        self.v, self.p, self.r, self.path, self.virt = v, p, r, path, virt

    def ident(self):
        if self.virt is not None:
            return ("virt",) + tuple(e.ident() for e in self.virt)
        if self.p is None:
            return ("root",)
        if is_set(self.p):
            return ("member", repr(refkey(self.p, self.r)))
        return (id(self.p), repr(refkey(self.p, self.r)))

    def __repr__(self):
        return "N(%r @ %r)" % (self.v, self.path)


def kids(n):
    v = n.v
    if is_map(v):
        return [N(val, v, k, n.path + (refkey(v, k),)) for k, val in v.items()]
    if is_seq(v):
        return [N(val, v, i, n.path + (refkey(v, i),))
                for i, val in enumerate(v)]
    if is_set(v):
        return [N(m, v, m, n.path + (refkey(v, m),)) for m in v]
    return []


def is_scalar(v):
    return not (is_map(v) or is_seq(v) or is_set(v))


def _intlike(text):
    try:
        return int(text)
    except ValueError:
        return None


def has_merge(v):
    return is_map(v) and bool(getattr(v, "merge", None))


class Ctx:
    """Per-evaluation bookkeeping (dead-branch detection for C01/C09)."""

    def __init__(self):
        self.dead = False       # a deterministic segment selected nothing
        self.null_midpath = False  # a null node was selected mid-path


def seg_eval(seg, n, rest, traverse_lists=True, ctx=None):
    """Nodes selected by one segment at node n; `rest` = following segs."""
    kind = seg[0]
    v = n.v
    if kind == "key":
        key = seg[1]
        if is_map(v):
            for k in v:
                if type(k) is not bool and isinstance(k, str) and k == key:
                    return [N(v[k], v, k, n.path + (refkey(v, k),))]
            ik = _intlike(key)
            if ik is not None:
                for k in v:
                    if isinstance(k, int) and not isinstance(k, bool) \
                            and k == ik:
                        return [N(v[k], v, k, n.path + (refkey(v, k),))]
            for k in v:
                if not isinstance(k, (str, int)) or isinstance(k, bool):
                    raise Unspecified("exotic key type")
            return []
        if is_seq(v):
            i = _intlike(key)
            if i is not None:
                if i < 0 or key.strip() != str(i):
                    raise Unspecified("implicit negative/odd index")
                if i < len(v):
                    return [N(v[i], v, i, n.path + (("i", i),))]
                return []
            if not traverse_lists:
                return []
            out = []
            for c in kids(n):
                out += seg_eval(seg, c, rest, traverse_lists, ctx)
            return out
        if is_set(v):
            for c in kids(n):
                if isinstance(c.v, str) and c.v == key:
                    return [c]
                if not isinstance(c.v, str):
                    raise Unspecified("non-text set member vs key")
            return []
        return []
    if kind == "index":
        i = seg[1]
        if is_seq(v):
            if -len(v) <= i < len(v):
                j = i % len(v)
                return [N(v[j], v, j, n.path + (("i", j),))]
            return []
        if is_set(v):
            raise ModelError("index on a set")
        return []
    if kind == "slice":
        a, b = seg[1], seg[2]
        if is_seq(v):
            if (a < 0) != (b < 0):
                raise Unspecified("mixed-sign slice bounds")
            if a < 0:
                # README: negative bounds select from the end of the Array
                if a < -len(v) or a > b:
                    raise Unspecified("negative slice outside the Array")
                a, b = a + len(v), b + len(v)
                if a == b and a >= len(v):
                    raise Unspecified("slice past the end")
            if a > b:
                raise Unspecified("reversed slice")
            if b > len(v) or (a == b and a >= len(v)):
                raise Unspecified("slice past the end")
            if a == b:
                elems = [N(v[a], v, a, n.path + (("i", a),))]
            else:
                elems = [N(v[j], v, j, n.path + (("i", j),))
                         for j in range(a, b)]
            return [N(None, v, a, n.path + (("slice", a, b),), virt=elems)]
        raise Unspecified("slice of a non-sequence")
    if kind == "anchor":
        name = seg[1]
        if has_merge(v):
            raise Unspecified("anchor lookup across a YAML merge key")
        if is_map(v):
            out = []
            for k, val in v.items():
                if anchor_of(k) == name or anchor_of(val) == name:
                    out.append(N(val, v, k, n.path + (refkey(v, k),)))
            return out
        if is_seq(v) or is_set(v):
            return [c for c in kids(n) if anchor_of(c.v) == name]
        return []
    if kind == "search":
        return _search(seg, n, rest, traverse_lists, ctx)
    if kind == "all":
        cs = kids(n)
        if not rest:
            return cs
        if is_set(v):
            raise Unspecified("filtered wildcard over set members")
        return [c for c in cs if seg_eval(rest[0], c, rest[1:], True, None)]
    if kind == "traverse":
        if rest and rest[0][0] == "traverse":
            raise ModelError("repeated traversal")
        out = []
        if not rest:
            def leaves(x):
                if is_map(x.v) or is_seq(x.v) or is_set(x.v):
                    for c in kids(x):
                        leaves(c)
                else:
                    out.append(x)
            leaves(n)
            return out

        def walk(x):
            if seg_eval(rest[0], x, rest[1:], False, None):
                out.append(x)
            if is_map(x.v) or is_seq(x.v):
                for c in kids(x):
                    walk(c)
        walk(n)
        return out
    raise Unspecified("segment kind %r" % (kind,))


def _ok(m, inv):
    return bool(m) != bool(inv)


def _search(seg, n, rest, traverse_lists, ctx):
    _, inv, method, attr, term = seg
    v = n.v
    if is_seq(v):
        if not traverse_lists:
            return []
        out = []
        for c in kids(n):
            if attr == ".":
                if not is_scalar(c.v):
                    raise Unspecified("'.' search over a container element")
                m = compare.match(method, term, c.v)
            elif is_map(c.v) and _has_key(c.v, attr):
                m = compare.match(method, term, _scalar_only(c.v[attr]))
            else:
                m = _descendant(c, attr, method, term, single=True)
            if _ok(m, inv):
                out.append(c)
        return out
    if is_map(v):
        if attr == ".":
            out = []
            for k, val in v.items():
                if _ok(compare.match(method, term, k), inv):
                    out.append(N(val, v, k, n.path + (refkey(v, k),)))
            return out
        if _has_key(v, attr):
            val = v[attr]
            if _ok(compare.match(method, term, _scalar_only(val)), inv):
                return [N(val, v, attr, n.path + (refkey(v, attr),))]
            return []
        m = _descendant(n, attr, method, term, single=True)
        return [n] if _ok(m, inv) else []
    if is_set(v):
        return [c for c in kids(n)
                if _ok(compare.match(method, term, c.v), inv)]
    return [n] if _ok(compare.match(method, term, v), inv) else []


def _has_key(mapping, attr):
    for k in mapping:
        if isinstance(k, str) and k == attr:
            return True
    return False


def _scalar_only(value):
    if not is_scalar(value):
        raise Unspecified("search compares a container value")
    return value


def _descendant(n, attr, method, term, single):
    """Descendant search: attribute is a sub-path evaluated below n."""
    from vp.model import pathast
    segs = pathast.parse_simple_subpath(attr)
    if segs is None:
        raise Unspecified("descendant attribute %r" % attr)
    found = run(segs, [n])
    if not found:
        return False
    if len(found) > 1:
        raise Unspecified("descendant search selecting several nodes")
    return compare.match(method, term, _scalar_only(found[0].v))


DETERMINISTIC = ("key", "index", "slice", "anchor", "collector")


def run(segs, nodes, ctx=None):
    segs = list(segs)
    for i, seg in enumerate(segs):
        nxt = []
        for n in nodes:
            if n.virt is not None:
                raise Unspecified("segment applied to a slice result")
            got = seg_eval(seg, n, segs[i + 1:], True, ctx)
            if ctx is not None:
                if not got and seg[0] in DETERMINISTIC:
                    ctx.dead = True
                if i + 1 < len(segs):
                    for g in got:
                        if g.virt is None and g.v is None:
                            ctx.null_midpath = True
            nxt += got
        nodes = nxt
    return nodes


def evaluate(doc, segs, ctx=None):
    """Model answer for a whole path on a document."""
    return run(segs, [N(doc, None, None, ())], ctx)
