"""Reference typed comparison for search operators (C12, used by C01/C07/C13).

Written from the property statement, not from yamlpath.common.searches.
Three-valued: returns True/False, or raises Unspecified where neither the
statement nor the documentation fixes the answer.
"""
import ast
import re

EQ, SW, EW, CT, RX, GT, LT, GE, LE = (
    "EQUALS", "STARTS_WITH", "ENDS_WITH", "CONTAINS", "REGEX",
    "GREATER_THAN", "LESS_THAN", "GREATER_THAN_OR_EQUAL",
    "LESS_THAN_OR_EQUAL")
ALL_METHODS = [EQ, SW, EW, CT, RX, GT, LT, GE, LE]

_INT = re.compile(r"^-?(0|[1-9][0-9]*)$")
_FLOAT = re.compile(r"^-?(0|[1-9][0-9]*)\.[0-9]+$")


class Unspecified(Exception):
    """The documentation does not determine the answer for this input."""


def classify_text(text):
    """Kind of a piece of text as a search operand: ("bool", v), ("int", v),
    ("float", v), ("text", s); Unspecified for other literal look-alikes."""
    low = text.lower()
    if low in ("true", "false"):
        return ("bool", low == "true")
    if _INT.match(text):
        return ("int", int(text))
    if _FLOAT.match(text):
        return ("float", float(text))
    # Anything else Python would read as a literal (None, tuples, lists,
    # 0x10, 1_0, 1e3, +1, " 1", quoted strings, bytes...) is a look-alike
    # the documentation says nothing about.
    try:
        ast.literal_eval(text)
    except (ValueError, SyntaxError, TypeError, MemoryError, RecursionError):
        return ("text", text)
    raise Unspecified("literal look-alike %r" % text)


def classify_value(value):
    """Kind of a document scalar (haystack)."""
    if value is None:
        return ("null", None)
    if type(value).__name__ == "ScalarBoolean":
        # ruamel's anchored/round-trip boolean is an int subclass whose
        # str() is "1"/"0"; no document promises which text it has.
        raise Unspecified("round-trip boolean object")
    if isinstance(value, bool):
        return ("bool", bool(value))
    if isinstance(value, int):
        return ("int", int(value))
    if isinstance(value, float):
        return ("float", float(value))
    if isinstance(value, str):
        return ("str", str(value))
    raise Unspecified("haystack of type %s" % type(value).__name__)


def _texts(kind, val):
    """Candidate spellings of a value's text."""
    if kind == "bool":
        return ["true", "True"] if val else ["false", "False"]
    if kind in ("int", "float"):
        return [str(val)]
    return [val]


def _agree(answers, what):
    answers = set(answers)
    if len(answers) == 1:
        return answers.pop()
    raise Unspecified(what)


_ORD = {
    GT: lambda a, b: a > b, LT: lambda a, b: a < b,
    GE: lambda a, b: a >= b, LE: lambda a, b: a <= b,
}


def match(method, term, haystack):
    """Does `haystack <method> term` hold?  term is the path's text."""
    if not isinstance(method, str):
        method = method.name
    hkind, hval = classify_value(haystack)
    tkind, tval = classify_text(term)

    # Interpretations of the haystack.  A string that spells a number or a
    # boolean is read both ways; the answer must not depend on the reading.
    readings = []
    if hkind == "str":
        skind, sval = classify_text(hval)   # may raise Unspecified
        readings.append(("text", hval))
        if skind != "text":
            readings.append((skind, sval))
    else:
        readings.append((hkind, hval))

    answers = []
    for kind, val in readings:
        answers.append(_match_one(method, term, tkind, tval, kind, val,
                                  original=hval if hkind == "str" else None))
    return _agree(answers, "string haystack %r reads as several kinds"
                  % (haystack,))


def _match_one(method, term, tkind, tval, kind, val, original):
    if kind == "null":
        if method == EQ and term != "None":
            return False
        raise Unspecified("null haystack under a textual/ordering operator")
    if method == EQ:
        if kind == "bool" or tkind == "bool":
            if kind == "bool" and tkind == "bool":
                return val == tval
            # a boolean against a number or against text is "textual
            # otherwise": compare spellings
            if kind == "bool":
                return _agree([t == term for t in _texts(kind, val)],
                              "boolean spelling")
            if kind in ("int", "float"):
                return str(val) == term
            return val == term
        if kind == tkind and kind in ("int", "float"):
            return val == tval
        if kind in ("int", "float"):
            return str(val) == term
        return val == term
    if method in (SW, EW, CT, RX):
        texts = _texts(kind, val)
        if original is not None and original not in texts:
            texts = texts + [original]
        if method == SW:
            return _agree([t.startswith(term) for t in texts], "text form")
        if method == EW:
            return _agree([t.endswith(term) for t in texts], "text form")
        if method == CT:
            return _agree([term in t for t in texts], "text form")
        rx = re.compile(term)
        return _agree([rx.search(t) is not None for t in texts], "text form")
    op = _ORD[method]
    if kind == "bool" or tkind == "bool":
        raise Unspecified("ordering with a boolean")
    if kind in ("int", "float"):
        if tkind in ("int", "float"):
            return op(val, tval)
        return False
    return op(val, term)
