"""Segment AST, independent writer (dot and slash notation, with the documented
escapes / demarcation) and a reader of yamlpath's parsed segments back into
the AST (used to compare, never to produce expectations for the parser).

AST segments (tuples):
    ("key", text) ("index", int) ("slice", a, b) ("anchor", name)
    ("search", inverted, METHOD_NAME, attr, term) ("all",) ("traverse",)
    ("keyword", inverted, NAME, [params])
    ("collector", OP, [inner segments])      OP in NONE/ADDITION/...
"""
import re

OPS = {
    "EQUALS": "=", "STARTS_WITH": "^", "ENDS_WITH": "$", "CONTAINS": "%",
    "LESS_THAN": "<", "GREATER_THAN": ">", "LESS_THAN_OR_EQUAL": "<=",
    "GREATER_THAN_OR_EQUAL": ">=", "REGEX": "=~",
}
COLLECTOR_OPS = {"NONE": "", "ADDITION": "+", "SUBTRACTION": "-",
                 "INTERSECTION": "&"}

# characters that must be neutralised in a key written outside brackets
_KEY_SPECIALS = set("[]()'\" \\")
# characters that must be neutralised inside a [search] operand
_OPERAND_SPECIALS = set("[]()'\" \\=^$%!<>~")
REGEX_DELIMS = "/_#@|:;,"


def _esc(text, specials, style):
    """style 0: backslash-escape every special; 1: single-quote the whole
    text when possible; 2: double-quote the whole text when possible."""
    if style in (1, 2):
        q = "'" if style == 1 else '"'
        if text and not any(c in text for c in "\\[]'\""):
            return q + text + q      # parentheses are literal inside quotes
    if style in (3, 4):
        # demarcated, with embedded quotes and backslashes escaped (README:
        # "embedded, single ' and " must be escaped")
        q = "'" if style == 3 else '"'
        if text and not any(c in text for c in "[]"):
            return q + "".join("\\" + c if c in "'\"\\" else c
                               for c in text) + q
    return "".join("\\" + c if c in specials else c for c in text)


def write_key(text, sep, style=0, first=False):
    specials = set(_KEY_SPECIALS)
    specials.add(sep)
    if "*" in text:
        # an undemarcated * is a wildcard; a literal one must be demarcated
        # (brackets, parentheses and quotes stay live inside demarcation)
        q = '"' if style in (2, 4) else "'"
        return q + "".join("\\" + c if c in "'\"\\[]()" else c
                           for c in text) + q
    out = _esc(text, specials, style)
    if out and out[0] == "&" and style == 0:
        out = "\\" + out
    return out


def write_operand(text, sep, style=0):
    specials = set(_OPERAND_SPECIALS)
    out = _esc(text, specials, style)
    if out and out[0] == "&":
        out = "\\" + out       # a leading & would read as an anchor mark
    return out


def write_segment(seg, sep, style=0):
    """Text of one segment WITHOUT its leading separator, and a flag telling
    whether a separator must precede it when it is not first."""
    kind = seg[0]
    if kind == "key":
        return write_key(seg[1], sep, style), True
    if kind == "index":
        return "[%d]" % seg[1], False
    if kind == "slice":
        return "[%d:%d]" % (seg[1], seg[2]), False
    if kind == "anchor":
        return "[&%s]" % seg[1], False
    if kind == "all":
        return "*", True
    if kind == "traverse":
        return "**", True
    if kind == "search":
        _, inv, method, attr, term = seg
        # only the term may be demarcated with quotes (README example);
        # the attribute is always backslash-escaped
        attr_t = attr if attr == "." else write_operand(attr, sep, 0)
        if method == "REGEX":
            delim = next(d for d in REGEX_DELIMS if d not in term)
            term_t = delim + term + delim
        else:
            term_t = write_operand(term, sep, style)
        return "[%s%s%s%s]" % (attr_t, "!" if inv else "", OPS[method],
                               term_t), False
    if kind == "keyword":
        _, inv, name, params = seg
        return "[%s%s(%s)]" % ("!" if inv else "", name.lower(),
                               ", ".join(params)), False
    if kind == "collector":
        _, op, inner = seg
        return "%s(%s)" % (COLLECTOR_OPS[op], write_path(inner, sep, style)), \
            False
    raise ValueError(kind)


def write_path(segs, sep=".", style=0):
    """Render an AST path.  sep is "." or "/"."""
    out = "/" if sep == "/" else ""
    first = True
    prev = None
    for seg in segs:
        text, needs_sep = write_segment(seg, sep, style)
        if seg[0] == "anchor" and first:
            text = "&" + seg[1]
            needs_sep = True
        if needs_sep and not first:
            out += sep
        if first and sep == "." and text.startswith("/"):
            text = "\\" + text     # else the path would read as slash notation
        if (prev is not None and prev[0] == "collector" and seg[0] == "key"
                and text[:1] in ("+", "-")):
            text = "\\" + text     # else it would read as a Collector operator
        out += text
        first = False
        prev = seg
    return out


# -- reading yamlpath's parse back into the AST ------------------------------
def from_path(path):
    """AST of a parsed YAMLPath.  Collector expressions are taken from the
    unescaped parse - that is the form the processor evaluates, the escaped
    parse has already consumed their backslashes."""
    esc = list(path.escaped)
    une = list(path.unescaped)
    out = from_parsed(esc)
    for i, seg in enumerate(out):
        if seg[0] == "collector" and i < len(une):
            out[i] = from_parsed([une[i]])[0]
    return out


def from_parsed(segments):
    """Convert YAMLPath(...).escaped into AST segments."""
    from yamlpath.enums import PathSegmentTypes as T
    from yamlpath.path import SearchTerms, SearchKeywordTerms, CollectorTerms
    out = []
    for stype, attrs in segments:
        if stype is T.KEY:
            out.append(("key", str(attrs)))
        elif stype is T.INDEX:
            if isinstance(attrs, int):
                out.append(("index", attrs))
            else:
                text = str(attrs)
                m = re.match(r"^(-?\d+):(-?\d+)$", text)
                if m:
                    out.append(("slice", int(m.group(1)), int(m.group(2))))
                else:
                    out.append(("rawslice", text))
        elif stype is T.ANCHOR:
            out.append(("anchor", str(attrs)))
        elif stype is T.MATCH_ALL:
            out.append(("all",))
        elif stype is T.TRAVERSE:
            out.append(("traverse",))
        elif stype is T.SEARCH and isinstance(attrs, SearchTerms):
            out.append(("search", bool(attrs.inverted), attrs.method.name,
                        attrs.attribute, attrs.term))
        elif stype is T.KEYWORD_SEARCH and isinstance(attrs,
                                                      SearchKeywordTerms):
            out.append(("keyword", bool(attrs.inverted), attrs.keyword.name,
                        list(attrs.parameters)))
        elif stype is T.COLLECTOR and isinstance(attrs, CollectorTerms):
            from yamlpath import YAMLPath
            inner = YAMLPath(attrs.expression)
            out.append(("collector", attrs.operation.name,
                        from_parsed(inner.escaped)))
        else:
            out.append(("other", stype.name, repr(attrs)))
    return out


_SIMPLE = re.compile(r"^[A-Za-z0-9_]+$")


def parse_simple_subpath(text):
    """Own minimal reader for search attributes used as descendant paths:
    plain words separated by '.' (or '/' when the text starts with '/').
    Returns AST segments or None when the text is anything richer."""
    if text.startswith("/"):
        parts = [p for p in text[1:].split("/")]
    else:
        parts = text.split(".")
    if not parts or any(not _SIMPLE.match(p) for p in parts):
        return None
    return [("key", p) for p in parts]
