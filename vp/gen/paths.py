"""Path ASTs for the query properties: exhaustive vocabulary over the small
document alphabet, and Hypothesis strategies deriving paths from documents."""
import itertools

from vp.model import pathast

S = "search"

# The C01 vocabulary (every item is one AST segment).
VOCAB = [
    ("key", "a"), ("key", "b"), ("key", "1"), ("key", "0"),
    ("index", 0), ("index", 1), ("index", -1),
    ("all",), ("traverse",),
    (S, False, "EQUALS", ".", "a"), (S, True, "EQUALS", ".", "a"),
    (S, False, "EQUALS", ".", "1"), (S, False, "EQUALS", "a", "1"),
    (S, True, "EQUALS", "a", "1"), (S, False, "GREATER_THAN", ".", "1"),
    (S, False, "GREATER_THAN_OR_EQUAL", "a", "1"),
    (S, False, "STARTS_WITH", ".", "a"), (S, False, "CONTAINS", "b", "a"),
    (S, False, "REGEX", ".", "^a"), (S, False, "LESS_THAN", "a", "2"),
    (S, False, "LESS_THAN_OR_EQUAL", ".", "1"),
    (S, False, "ENDS_WITH", ".", "a"), (S, False, "EQUALS", ".", "true"),
    (S, True, "LESS_THAN", ".", "2"), (S, False, "EQUALS", "b", "a"),
    ("slice", 0, 1), ("slice", 0, 2), ("slice", 1, 1),
    ("slice", -2, -1), ("slice", -1, -1),
]

KINDS = {"key": "K", "index": "I", "slice": "SL", "anchor": "A", "search": "S",
         "all": "W", "traverse": "T", "keyword": "KW", "collector": "C"}


def kinds(segs):
    return "-".join(KINDS[s[0]] for s in segs)


def enum_paths(k, vocab=None):
    """All sequences of 1..k vocabulary segments (no adjacent traversals;
    slices only in final position)."""
    vocab = VOCAB if vocab is None else vocab
    out = []
    for n in range(1, k + 1):
        for combo in itertools.product(vocab, repeat=n):
            if any(combo[i][0] == "traverse" and combo[i + 1][0] == "traverse"
                   for i in range(n - 1)):
                continue
            if any(s[0] == "slice" for s in combo[:-1]):
                continue
            out.append(list(combo))
    return out


def enum_paths_exact(n, vocab=None):
    vocab = VOCAB if vocab is None else vocab
    for combo in itertools.product(vocab, repeat=n):
        if any(combo[i][0] == "traverse" and combo[i + 1][0] == "traverse"
               for i in range(n - 1)):
            continue
        if any(s[0] == "slice" for s in combo[:-1]):
            continue
        yield list(combo)


def render(segs, sep, style=0):
    return pathast.write_path(segs, sep, style)


def to_json(segs):
    return [list(s) for s in segs]


def from_json(segs):
    return [tuple(s) for s in segs]


# -- Hypothesis: paths derived from a document --------------------------------
def st_path_for(doc, max_len=6, with_anchor=True):
    """Strategy: walk to a random node of the loaded document, then
    generalise random steps into searches / wildcards / traversals, so that
    most generated paths match something."""
    from hypothesis import strategies as st
    from vp.model.plain import (positions, is_map, is_seq, is_set,
                                anchor_of, get_at, cscalar)

    pos = positions(doc)
    terms = ["a", "1", "b", "", "true", "2", "ab", "0", "1.5", "A"]
    methods = ["EQUALS", "STARTS_WITH", "ENDS_WITH", "CONTAINS", "REGEX",
               "GREATER_THAN", "LESS_THAN", "GREATER_THAN_OR_EQUAL",
               "LESS_THAN_OR_EQUAL"]

    @st.composite
    def build(draw):
        path, node, _p, _r = draw(st.sampled_from(pos))
        path = path[:max_len]
        segs = []
        cur = doc
        for step in path:
            tag = step[0]
            choice = draw(st.integers(0, 9))
            if tag == "i":
                idx = step[1]
                if not is_seq(cur):
                    break
                if choice <= 3:
                    segs.append(("index", idx))
                elif choice == 4:
                    segs.append(("key", str(idx)))
                elif choice == 5:
                    segs.append(("index", idx - len(cur)))
                elif choice == 6:
                    segs.append(("all",))
                elif choice == 7:
                    segs.append((S, draw(st.booleans()),
                                 draw(st.sampled_from(methods)), ".",
                                 draw(st.sampled_from(terms))))
                elif choice == 8:
                    elem = cur[idx]
                    if is_map(elem) and len(elem) and all(
                            isinstance(x, (str, int)) for x in elem):
                        k = draw(st.sampled_from([str(x) for x in elem]))
                        segs.append((S, draw(st.booleans()),
                                     draw(st.sampled_from(methods)), k,
                                     draw(st.sampled_from(terms))))
                    else:
                        segs.append(("index", idx))
                else:
                    pass   # omit: Array-of-Hashes pass-through
                cur = cur[idx]
            elif tag == "k":
                key = step[2] if len(step) > 2 else None
                real_key = None
                if not is_map(cur) or step[1] not in ("s", "i"):
                    break
                for kk in cur:
                    if tuple(cscalar(kk)) == tuple(step[1:]):
                        real_key = kk
                        break
                if real_key is None:
                    break
                if choice <= 4:
                    segs.append(("key", str(key)))
                elif choice == 5:
                    segs.append(("all",))
                elif choice == 6:
                    segs.append((S, draw(st.booleans()),
                                 draw(st.sampled_from(methods)), ".",
                                 draw(st.sampled_from(terms + [str(key)]))))
                elif choice == 7 and with_anchor and \
                        anchor_of(cur[real_key]) is not None:
                    segs.append(("anchor", anchor_of(cur[real_key])))
                elif choice == 8:
                    segs.append(("traverse",))
                    segs.append(("key", str(key)))
                else:
                    segs.append(("key", str(key)))
                cur = cur[real_key]
            else:
                member = step[2] if len(step) > 2 else None
                if choice <= 5:
                    segs.append(("key", str(member)))
                elif choice <= 7:
                    segs.append(("all",))
                else:
                    segs.append((S, draw(st.booleans()),
                                 draw(st.sampled_from(methods)), ".",
                                 draw(st.sampled_from(terms))))
                break
        tail = draw(st.integers(0, 9))
        if tail == 0:
            segs.append(("traverse",))
        elif tail == 1:
            segs.append(("all",))
        elif tail == 2:
            segs.append((S, draw(st.booleans()),
                         draw(st.sampled_from(methods)), ".",
                         draw(st.sampled_from(terms))))
        elif tail == 3 and is_seq(cur) and len(cur):
            a = draw(st.integers(0, len(cur) - 1))
            b = draw(st.integers(a, len(cur)))
            segs.append(("slice", a, b))
        # drop adjacent traversals
        clean = []
        for s in segs:
            if clean and clean[-1][0] == "traverse" and s[0] == "traverse":
                continue
            clean.append(s)
        if not clean:
            clean = [("all",)]
        return clean

    return build()
