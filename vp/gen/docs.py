"""Document specs -> YAML text -> real ruamel trees (through yamlpath's own
strict loader), exhaustive enumeration by node count, Hypothesis strategies.

A spec is a JSON-able nested list:
    ["S", value, anchor|None]            scalar (None/bool/int/float/str)
    ["A", name]                          alias of a previously anchored node
    ["M", [[key, spec], ...], anchor]    mapping (key: str|int, or "<<" merge;
                                         ["KD", name, anchor] defines an
                                         anchored key, ["KA", anchor] uses
                                         it again as an aliased key)
    ["L", [spec, ...], anchor]           sequence
    ["T", [value, ...], anchor]          !!set of scalar members
"""
import itertools
import json
from types import SimpleNamespace

_PLAIN_OK = set("abcdefghijklmnopqrstuvwxyzABCDEFGHIJKLMNOPQRSTUVWXYZ_")
_RESERVED = {"null", "true", "false", "yes", "no", "on", "off", "y", "n",
             "nan", "inf"}

_LOG = None
_YAML = None


def logger():
    """A ConsolePrinter whose recoverable error()/warning() output is kept
    in memory instead of flooding the check's stdout (library calls report
    failures through return values and exceptions, which is what the checks
    observe)."""
    global _LOG
    if _LOG is None:
        from yamlpath.wrappers import ConsolePrinter

        class QuietPrinter(ConsolePrinter):
            def __init__(self, args):
                super().__init__(args)
                self.errors = []

            def error(self, message, exit_code=None):
                self.errors.append(str(message))
                del self.errors[:-20]
                if exit_code is not None:
                    import sys
                    sys.exit(exit_code)

            def warning(self, message):
                pass

        _LOG = QuietPrinter(SimpleNamespace(verbose=False, quiet=True,
                                            debug=False))
    return _LOG


def load(text):
    """Load YAML text with yamlpath's strict loader; returns (data, ok)."""
    from yamlpath.common import Parsers
    yaml = Parsers.get_yaml_editor()
    return Parsers.get_yaml_data(yaml, logger(), text, literal=True)


def dump(data):
    """Serialise a ruamel tree the way the tools do."""
    import io
    from yamlpath.common import Parsers
    yaml = Parsers.get_yaml_editor()
    buf = io.StringIO()
    yaml.dump(data, buf)
    return buf.getvalue()


# -- emitter -----------------------------------------------------------------
def scalar_text(value, quote=False):
    if value is None:
        return "null"
    if value is True:
        return "true"
    if value is False:
        return "false"
    if isinstance(value, (int, float)):
        return repr(value)
    text = str(value)
    if (not quote and text and all(c in _PLAIN_OK or c.isdigit() for c in text)
            and text[0] in _PLAIN_OK and text.lower() not in _RESERVED):
        return text
    return json.dumps(text, ensure_ascii=True)


def _anchor(name):
    return ("&%s " % name) if name else ""


def _is_inline(spec):
    kind = spec[0]
    if kind in ("S", "A"):
        return True
    return len(spec[1]) == 0


def _inline(spec):
    kind = spec[0]
    if kind == "S":
        anc = spec[2] if len(spec) > 2 else None
        return _anchor(anc) + scalar_text(spec[1])
    if kind == "A":
        return "*" + spec[1]
    anc = spec[2] if len(spec) > 2 else None
    if kind == "M":
        return _anchor(anc) + "{}"
    if kind == "L":
        return _anchor(anc) + "[]"
    return _anchor(anc) + "!!set {}"


def _block(spec, indent):
    """Lines of a non-inline container at the given indentation."""
    pad = " " * indent
    kind = spec[0]
    out = []
    if kind == "M":
        for key, val in spec[1]:
            if isinstance(key, list) and key[0] == "KD":
                ktxt = "&%s %s" % (key[2], scalar_text(key[1]))
            elif isinstance(key, list) and key[0] == "KA":
                ktxt = "*%s " % key[1]
            else:
                ktxt = "<<" if key == "<<" else scalar_text(key)
            if _is_inline(val):
                out.append("%s%s: %s" % (pad, ktxt, _inline(val)))
            else:
                head = "%s%s:" % (pad, ktxt)
                extra = _header(val)
                out.append(head + (" " + extra if extra else ""))
                out.extend(_block(val, indent + 2))
    elif kind == "L":
        for val in spec[1]:
            if _is_inline(val):
                out.append("%s- %s" % (pad, _inline(val)))
            else:
                extra = _header(val)
                out.append("%s-%s" % (pad, (" " + extra) if extra else ""))
                out.extend(_block(val, indent + 2))
    elif kind == "T":
        for member in spec[1]:
            out.append("%s? %s" % (pad, scalar_text(member)))
    return out


def _header(spec):
    anc = spec[2] if len(spec) > 2 else None
    parts = []
    if anc:
        parts.append("&" + anc)
    if spec[0] == "T":
        parts.append("!!set")
    return " ".join(parts)


def emit(spec):
    """YAML text (block style, empty containers in flow style)."""
    if _is_inline(spec):
        return _inline(spec) + "\n"
    head = _header(spec)
    lines = _block(spec, 0)
    if head:
        lines.insert(0, "--- " + head)
    return "\n".join(lines) + "\n"


def count_nodes(spec):
    kind = spec[0]
    if kind in ("S", "A"):
        return 1
    if kind == "M":
        return 1 + sum(count_nodes(v) for _, v in spec[1])
    if kind == "L":
        return 1 + sum(count_nodes(v) for v in spec[1])
    return 1 + len(spec[1])


# -- exhaustive enumeration --------------------------------------------------
KEYS_SMALL = ["a", "b", 1]
SCALARS_SMALL = [None, True, 1, 2, 1.5, "a", "1", ""]
SET_MEMBERS_SMALL = ["a", "b"]


def _compositions(total, parts):
    """All ordered ways to write total as a sum of `parts` positive ints."""
    if parts == 0:
        if total == 0:
            yield ()
        return
    if parts == 1:
        if total >= 1:
            yield (total,)
        return
    for first in range(1, total - parts + 2):
        for rest in _compositions(total - first, parts - 1):
            yield (first,) + rest


_CACHE = {}


def specs_exact(n, keys=None, scalars=None, members=None):
    """Every spec with exactly n nodes over the given alphabets."""
    keys = KEYS_SMALL if keys is None else keys
    scalars = SCALARS_SMALL if scalars is None else scalars
    members = SET_MEMBERS_SMALL if members is None else members
    ck = (n, json.dumps([keys, scalars, members]))
    if ck in _CACHE:
        return _CACHE[ck]
    out = []
    if n == 1:
        out.extend(["S", s, None] for s in scalars)
        out.append(["M", [], None])
        out.append(["L", [], None])
        out.append(["T", [], None])
    else:
        budget = n - 1
        # sequences
        for width in range(1, budget + 1):
            for sizes in _compositions(budget, width):
                pools = [specs_exact(s, keys, scalars, members) for s in sizes]
                for combo in itertools.product(*pools):
                    out.append(["L", list(combo), None])
        # mappings (ordered, distinct keys)
        for width in range(1, min(budget, len(keys)) + 1):
            for kseq in itertools.permutations(keys, width):
                for sizes in _compositions(budget, width):
                    pools = [specs_exact(s, keys, scalars, members)
                             for s in sizes]
                    for combo in itertools.product(*pools):
                        out.append(["M", [[k, v] for k, v in
                                          zip(kseq, combo)], None])
        # sets (members cost one node each; insertion order matters little,
        # enumerate combinations in alphabet order)
        if budget <= len(members):
            for mem in itertools.combinations(members, budget):
                out.append(["T", list(mem), None])
    _CACHE[ck] = out
    return out


def specs_upto(n, **kw):
    out = []
    for i in range(1, n + 1):
        out.extend(specs_exact(i, **kw))
    return out


# -- key variants -------------------------------------------------------------
# (document key -> replacement key, path key text -> replacement text): the
# small alphabets only hold the keys a, b and 1; these variants move whole
# grids onto negative / zero / multi-digit integer keys and number-like or
# spaced text keys without enlarging the enumeration.
KEY_VARIANTS = [
    ("neg-int", [[1, -1]], {"1": "-1"}),
    ("zero-int", [[1, 0]], {"1": "0"}),
    ("wide-int", [[1, 12]], {"1": "12"}),
    ("neg-text", [["a", "-1"]], {"a": "-1"}),
    ("spaced-text", [["b", "b c"]], {"b": "b c"}),
    # text key spelled like the integer key 1 of the same alphabet
    ("twin-text", [["a", "1"]], {"a": "1"}),
]


def variant_specs(specs, kv):
    """The specs that hold a replaced key, moved onto variant kv."""
    _, pairs, _ = KEY_VARIANTS[kv]
    return [remap_keys(s, pairs) for s in specs
            if any(has_key(s, old) for old, _ in pairs)]


def variant_segs(segs, kv):
    """Path AST with key segments renamed for variant kv."""
    textmap = KEY_VARIANTS[kv][2]
    return [("key", textmap[s[1]]) if s[0] == "key" and s[1] in textmap
            else tuple(s) for s in segs]


def _keq(a, b):
    return type(a) is type(b) and a == b


def has_key(spec, key):
    kind = spec[0]
    if kind == "M":
        return any(_keq(k, key) or has_key(v, key) for k, v in spec[1])
    if kind == "L":
        return any(has_key(v, key) for v in spec[1])
    if kind == "T":
        return any(_keq(m, key) for m in spec[1])
    return False


def remap_keys(spec, pairs):
    """Copy of spec with mapping keys / set members replaced per
    [[old, new], ...] (compared by type and value)."""
    def sub(k):
        for old, new in pairs:
            if _keq(k, old):
                return new
        return k
    kind = spec[0]
    anchor = spec[2] if len(spec) > 2 else None
    if kind == "M":
        return ["M", [[sub(k), remap_keys(v, pairs)] for k, v in spec[1]],
                anchor]
    if kind == "L":
        return ["L", [remap_keys(v, pairs) for v in spec[1]], anchor]
    if kind == "T":
        return ["T", [sub(m) for m in spec[1]], anchor]
    return spec


# -- Hypothesis strategies ---------------------------------------------------
SCALARS_WIDE = [None, True, False, 0, 1, 2, 300, -1, 0.5, 1.5, "a", "b", "ab",
                "", "1", "true", "A", "abc", "b c"]
KEYS_WIDE = ["a", "b", "c", 1, "1", "ab", "id", "name"]


def st_spec(max_leaves=12, keys=None, scalars=None, with_sets=True,
            with_anchors=False):
    """Recursive spec strategy with forced shape classes."""
    from hypothesis import strategies as st
    keys = KEYS_WIDE if keys is None else keys
    scalars = SCALARS_WIDE if scalars is None else scalars
    leaf = st.sampled_from(scalars).map(lambda v: ["S", v, None])
    empties = st.sampled_from([["M", [], None], ["L", [], None],
                               ["T", [], None]] if with_sets else
                              [["M", [], None], ["L", [], None]])

    def extend(children):
        maps = st.lists(st.tuples(st.sampled_from(keys), children),
                        min_size=1, max_size=4,
                        unique_by=lambda kv: str(kv[0])).map(
            lambda kvs: ["M", [[k, v] for k, v in kvs], None])
        seqs = st.lists(children, min_size=1, max_size=4).map(
            lambda xs: ["L", xs, None])
        # array of hashes with a shared attribute
        aoh = st.lists(
            st.tuples(st.sampled_from(scalars), st.booleans(), children),
            min_size=1, max_size=4).map(
            lambda rows: ["L", [["M", ([["id", ["S", v, None]]] if has else [])
                                 + [["x", c]], None]
                                for v, has, c in rows], None])
        repeated = st.tuples(st.sampled_from(scalars),
                             st.integers(2, 4)).map(
            lambda t: ["L", [["S", t[0], None]] * t[1], None])
        opts = [maps, seqs, aoh, repeated, maps, seqs]
        if with_sets:
            opts.append(st.lists(st.sampled_from(["a", "b", "c", 1, "1"]),
                                 min_size=1, max_size=3,
                                 unique_by=str).map(
                lambda ms: ["T", ms, None]))
        return st.one_of(*opts)

    base = st.one_of(leaf, leaf, leaf, empties)
    tree = st.recursive(base, extend, max_leaves=max_leaves)
    if not with_anchors:
        return tree
    return tree.flatmap(lambda s: _st_anchorise(s))


def _st_anchorise(spec):
    """Randomly anchor some scalars/containers and replace later equal-kind
    positions by aliases of them (a valid YAML document results)."""
    from hypothesis import strategies as st
    slots = []

    def walk(node, path):
        slots.append(path)
        if node[0] == "M":
            for i, (_, v) in enumerate(node[1]):
                walk(v, path + (i,))
        elif node[0] == "L":
            for i, v in enumerate(node[1]):
                walk(v, path + (i,))

    walk(spec, ())
    return st.lists(st.integers(0, 2), min_size=len(slots),
                    max_size=len(slots)).map(
        lambda marks: apply_anchor_marks(spec, slots, marks))


def apply_anchor_marks(spec, slots, marks):
    """marks[i]: 0 = leave, 1 = define an anchor here, 2 = alias the most
    recent anchor (if any; containers are aliased only to containers)."""
    spec = json.loads(json.dumps(spec))
    names = iter("xyzuvw" * 20)
    defined = []
    counter = [0]

    def get(path):
        node = spec
        for step in path:
            node = node[1][step][1] if node[0] == "M" else node[1][step]
        return node

    def put(path, new):
        parent = get(path[:-1])
        if parent[0] == "M":
            parent[1][path[-1]][1] = new
        else:
            parent[1][path[-1]] = new

    dead = set()
    for path, mark in zip(slots, marks):
        if any(path[:i] in dead for i in range(len(path) + 1)):
            continue
        if not path:
            continue
        node = get(path)
        if mark == 1 and node[0] != "A":
            counter[0] += 1
            name = next(names) + (str(counter[0]) if counter[0] > 6 else "")
            while len(node) < 3:
                node.append(None)
            node[2] = name
            defined.append((name, path))
        elif mark == 2:
            usable = [n for n, p in defined if path[:len(p)] != p]
            if usable:
                put(path, ["A", usable[-1]])
                dead.add(path)
    return spec
