"""Shared runner: seeds, sharding, watchdog, bucketing, findings, evidence.

A property module (vp/props/cXX.py) provides

    ID, LEVEL, RULE, ASSUMPTIONS
    plan(tier, seed)        -> list of picklable shard descriptors (dicts)
    run_shard(shard)        -> vp.runner.Result
    replay(case)            -> list of failure dicts (empty = case passes)
    shrink(case, sig)       -> smaller case with the same signature (optional)

A failure is {"sig": {...}, "case": {...}, "detail": str}.  `sig` is the
bucket key (oracle clause, exception type, innermost yamlpath frame and a
small per-property shape class); `case` is plain JSON that `replay` accepts.
"""
import argparse
import collections
import faulthandler
import hashlib
import importlib
import json
import multiprocessing
import os
import signal
import sys
import time
import traceback

ROOT = os.path.dirname(os.path.dirname(os.path.abspath(__file__)))
MAX_KEEP_PER_SIG = 4
_REAL_STDERR = None


def h64(obj):
    """Stable 64-bit hash of a JSON-able / repr-able object."""
    if not isinstance(obj, (bytes, str)):
        obj = json.dumps(obj, sort_keys=True, default=repr)
    if isinstance(obj, str):
        obj = obj.encode("utf-8", "surrogatepass")
    return int.from_bytes(hashlib.blake2b(obj, digest_size=8).digest(), "big")


def case_size(case):
    return len(json.dumps(case, sort_keys=True, default=repr))


class Result:
    """What one shard reports back."""

    def __init__(self):
        self.evaluations = 0
        self.nt_hashes = set()      # hashes of distinct non-trivial cases
        self.nt_count = 0           # non-trivial cases distinct by construction
        self.labels = collections.Counter()
        self.failures = {}          # sigkey -> [count, [failure,...]]
        self.samples = []
        self.truncated = False
        self.notes = []

    # -- recording helpers -------------------------------------------------
    def nontrivial(self, case=None, key=None, sample=True):
        """Count a non-trivial case; `key` (hashable/json) makes it distinct."""
        if key is None and case is None:
            self.nt_count += 1
        else:
            self.nt_hashes.add(h64(key if key is not None else case))
            if case is None and len(self.samples) < 3:
                # keep the distinguishing key itself as a written-out sample
                self.samples.append({"case_key": key})
        if sample and case is not None and len(self.samples) < 3:
            self.samples.append(case)

    def label(self, name, n=1):
        self.labels[name] += n

    def fail(self, sig, case, detail=""):
        key = json.dumps(sig, sort_keys=True)
        slot = self.failures.setdefault(key, [0, []])
        slot[0] += 1
        rec = {"sig": sig, "case": case, "detail": str(detail)[:2000]}
        keep = slot[1]
        keep.append(rec)
        keep.sort(key=lambda r: case_size(r["case"]))
        del keep[MAX_KEEP_PER_SIG:]


class CaseTimeout(Exception):
    """Raised inside a case when the code under test does not return."""


class time_limit:
    """with time_limit(10): ...   (SIGALRM based; worker processes only)"""

    def __init__(self, seconds):
        self.seconds = seconds

    def _fire(self, signum, frame):
        raise CaseTimeout()

    def __enter__(self):
        self.old = signal.signal(signal.SIGALRM, self._fire)
        signal.alarm(self.seconds)

    def __exit__(self, *exc):
        signal.alarm(0)
        signal.signal(signal.SIGALRM, self.old)
        return False


class Deadline:
    def __init__(self, seconds):
        self.t_end = time.monotonic() + seconds if seconds else None

    def expired(self):
        return self.t_end is not None and time.monotonic() > self.t_end


def exc_frame(exc, pkg="yamlpath"):
    """(type name, innermost frame inside the package as file:function)."""
    return exc_site(exc, pkg)[:2]


def exc_site(exc, pkg="yamlpath"):
    """(type name, file:function, stripped source line) of the innermost
    frame inside the package - stable when unrelated lines move."""
    import linecache
    tb = exc.__traceback__
    where = "?"
    src = ""
    marker = os.sep + pkg + os.sep
    while tb is not None:
        fn = tb.tb_frame.f_code.co_filename
        if marker in fn and os.sep + "verif" + os.sep not in fn:
            where = "%s:%s" % (fn.split(marker, 1)[1],
                               tb.tb_frame.f_code.co_name)
            src = linecache.getline(fn, tb.tb_lineno).strip()
        tb = tb.tb_next
    return type(exc).__name__, where, src


# -- known findings ----------------------------------------------------------
def load_findings(prop_id, path=None):
    path = path or os.path.join(ROOT, "known-findings.txt")
    out = []
    if not os.path.exists(path):
        return out
    with open(path, encoding="utf-8") as fh:
        for line in fh:
            line = line.strip()
            if not line.startswith("open:"):
                continue
            body = line[len("open:"):].strip()
            if not body.startswith("property=%s " % prop_id):
                continue
            idx = body.find("sig=")
            if idx < 0:
                continue
            sig, end = json.JSONDecoder().raw_decode(body[idx + 4:])
            rest = body[idx + 4 + end:].strip()
            replay = None
            if rest.startswith("replay="):
                replay, _, rest = rest[len("replay="):].partition(" ")
            out.append({"sig": sig, "replay": replay, "desc": rest.strip()})
    return out


def match_finding(sig, findings):
    for f in findings:
        if all(sig.get(k) == v for k, v in f["sig"].items()) and \
                set(f["sig"]) == set(sig):
            return f
    return None


# -- worker side -------------------------------------------------------------
def _worker(args):
    modname, shard, budget = args
    try:
        mod = importlib.import_module(modname)
        shard = dict(shard)
        shard.setdefault("budget_s", budget)
        t0 = time.monotonic()
        res = mod.run_shard(shard)
        res.wall = time.monotonic() - t0
        return ("ok", res)
    except BaseException:  # harness fault, reported as exit 2
        return ("err", "shard %r\n%s" % (shard, traceback.format_exc()))


def _init_worker():
    signal.signal(signal.SIGINT, signal.SIG_IGN)
    devnull = os.open(os.devnull, os.O_RDONLY)
    os.dup2(devnull, 0)
    # The code under test logs errors straight to stderr (ConsolePrinter);
    # keep the real stderr for faulthandler only.
    global _REAL_STDERR
    _REAL_STDERR = os.fdopen(os.dup(2), "w")
    faulthandler.enable(file=_REAL_STDERR)
    sink = os.open(os.devnull, os.O_WRONLY)
    os.dup2(sink, 2)
    # Broken code under test can grow a document without bound (e.g. a query
    # that appends its own results to the list it reads); cap every worker's
    # address space so that ends in MemoryError, not in an exhausted machine.
    try:
        import resource
        cap = int(os.environ.get("VP_WORKER_MEM_GB") or "3") << 30
        resource.setrlimit(resource.RLIMIT_AS, (cap, cap))
    except Exception:
        pass


# -- main --------------------------------------------------------------------
def main(argv):
    ap = argparse.ArgumentParser(prog="check")
    ap.add_argument("prop")
    ap.add_argument("--tier", default=os.environ.get("VERIF_TIER") or "quick",
                    choices=["quick", "thorough"])
    ap.add_argument("--replay")
    ap.add_argument("--seed", type=int,
                    default=int(os.environ.get("VERIF_SEED") or "1"))
    ap.add_argument("--jobs", type=int,
                    default=int(os.environ.get("VP_JOBS") or "0"))
    ap.add_argument("--no-evidence", action="store_true")
    ap.add_argument("--only", help="run only shards whose kind matches")
    args = ap.parse_args(argv)
    prop = args.prop.upper()

    repo = os.path.realpath(os.environ.get("VP_REPO", "/repo"))
    try:
        import yamlpath
        where = os.path.realpath(yamlpath.__file__)
        if not where.startswith(repo + os.sep):
            print("HARNESS: yamlpath imported from %s, not under %s"
                  % (where, repo))
            return 2
        mod = importlib.import_module("vp.props." + prop.lower())
    except Exception:
        traceback.print_exc()
        return 2

    findings = load_findings(prop)

    if args.replay:
        return _replay_one(mod, prop, args.replay, findings)

    t0 = time.monotonic()
    jobs = args.jobs or min(16, os.cpu_count() or 1)
    total = Result()
    buckets = {}

    def absorb_failure(rec, count=1):
        key = json.dumps(rec["sig"], sort_keys=True)
        slot = buckets.setdefault(key, {"count": 0, "recs": []})
        slot["count"] += count
        slot["recs"].append(rec)
        slot["recs"].sort(key=lambda r: case_size(r["case"]))
        del slot["recs"][MAX_KEEP_PER_SIG:]

    # replay tier: every committed replay of this property runs first
    replayed = 0
    stale = []
    rdir = os.path.join(ROOT, "replays", prop)
    if os.path.isdir(rdir):
        for name in sorted(os.listdir(rdir)):
            if not name.endswith(".json"):
                continue
            with open(os.path.join(rdir, name), encoding="utf-8") as fh:
                rec = json.load(fh)
            try:
                fails = mod.replay(rec["case"])
            except Exception:
                traceback.print_exc()
                print("HARNESS: replay of %s crashed" % name)
                return 2
            replayed += 1
            for f in fails:
                absorb_failure(f)
            if not fails:
                stale.append(name)

    try:
        shards = mod.plan(args.tier, args.seed)
    except Exception:
        traceback.print_exc()
        return 2
    if args.only:
        shards = [s for s in shards if args.only in str(s.get("kind"))]
    budget = getattr(mod, "SHARD_BUDGET_S", {}).get(args.tier, 0)
    hard = getattr(mod, "HARD_TIMEOUT_S", {}).get(args.tier, 3600)
    work = [("vp.props." + prop.lower(), s, budget) for s in shards]
    errors = []
    if work:
        ctx = multiprocessing.get_context("fork")
        pool = ctx.Pool(min(jobs, len(work)), initializer=_init_worker,
                        maxtasksperchild=getattr(mod, "MAXTASKS", None))
        try:
            it = pool.imap_unordered(_worker, work)
            for _ in range(len(work)):
                left = hard - (time.monotonic() - t0)
                try:
                    status, res = it.next(timeout=max(left, 1))
                except multiprocessing.TimeoutError:
                    errors.append("hard timeout after %ds" % hard)
                    break
                if status == "err":
                    errors.append(res)
                    continue
                total.evaluations += res.evaluations
                total.nt_hashes |= res.nt_hashes
                total.nt_count += res.nt_count
                total.labels.update(res.labels)
                total.truncated |= res.truncated
                total.notes.extend(res.notes)
                if res.samples and len(total.samples) < 12:
                    total.samples.extend(res.samples[:2])
                for key, (cnt, recs) in res.failures.items():
                    for i, r in enumerate(recs):
                        absorb_failure(r, cnt if i == 0 else 0)
        finally:
            pool.terminate()
            pool.join()
    if errors:
        for e in errors:
            print("HARNESS: " + e)
        return 2

    # decide
    violations = []
    known_hits = collections.Counter()
    for key in sorted(buckets):
        slot = buckets[key]
        rec = slot["recs"][0]
        f = match_finding(rec["sig"], findings)
        if f is not None:
            known_hits[f["desc"]] += slot["count"]
            continue
        if hasattr(mod, "shrink"):
            try:
                small = mod.shrink(rec["case"], rec["sig"])
                if small is not None:
                    again = [x for x in mod.replay(small)
                             if x["sig"] == rec["sig"]]
                    if again:
                        rec = again[0]
            except Exception:
                traceback.print_exc()
        name = "%016x.json" % h64(key)
        path = os.path.join("replays", prop, "found", name)
        os.makedirs(os.path.join(ROOT, "replays", prop, "found"),
                    exist_ok=True)
        out = dict(rec)
        out["property"] = prop
        out["observed_count"] = slot["count"]
        with open(os.path.join(ROOT, path), "w", encoding="utf-8") as fh:
            json.dump(out, fh, indent=1, sort_keys=True, default=repr)
            fh.write("\n")
        violations.append((path, rec))

    for f in findings:
        n = known_hits.get(f["desc"], 0)
        print("KNOWN-FINDING: property=%s %s%s" % (
            prop, f["desc"], "" if n else "  [not re-observed in this run]"))
    for path, rec in violations:
        print("VIOLATION property=%s replay=%s" % (prop, path))
        print("  sig=%s" % json.dumps(rec["sig"], sort_keys=True))
        print("  case=%s" % json.dumps(rec["case"], sort_keys=True,
                                       default=repr)[:600])
        if rec.get("detail"):
            print("  detail=%s" % rec["detail"][:600].replace("\n", "\n    "))

    wall = time.monotonic() - t0
    nt = len(total.nt_hashes) + total.nt_count
    print("%s tier=%s seed=%d evaluations=%d distinct_nontrivial=%d "
          "shards=%d replayed=%d wall=%.1fs%s" % (
              prop, args.tier, args.seed, total.evaluations, nt, len(work),
              replayed, wall, " TRUNCATED(budget)" if total.truncated else ""))
    if not args.no_evidence and not args.only:
        cov = {
            "evaluations": total.evaluations,
            "distinct_nontrivial": nt,
            "rule": mod.RULE,
            "samples": total.samples[:8],
            "exhaustive": bool(getattr(mod, "EXHAUSTIVE", {}).get(args.tier))
            and not total.truncated,
            "labels": dict(sorted(total.labels.items())),
            "shards": len(work),
            "replays_run": replayed,
            "stale_replays": stale,
            "budget_truncated": total.truncated,
            "known_finding_hits": dict(known_hits),
            "notes": sorted(set(total.notes))[:20],
        }
        ev = {
            "property_id": prop, "tier": args.tier, "seed": args.seed,
            "level": mod.LEVEL, "coverage": cov,
            "assumptions": list(getattr(mod, "ASSUMPTIONS", [])),
            "wall_s": round(wall, 2), "violations": len(violations),
        }
        os.makedirs(os.path.join(ROOT, "evidence"), exist_ok=True)
        with open(os.path.join(ROOT, "evidence", prop + ".json"), "w",
                  encoding="utf-8") as fh:
            json.dump(ev, fh, indent=1, sort_keys=True, default=repr)
            fh.write("\n")
    if violations:
        return 1
    if total.evaluations == 0 or nt < 2:
        print("HARNESS: vacuous run (evaluations=%d nontrivial=%d)"
              % (total.evaluations, nt))
        return 2
    return 1 if violations else 0


def _replay_one(mod, prop, path, findings):
    full = path if os.path.isabs(path) else os.path.join(ROOT, path)
    with open(full, encoding="utf-8") as fh:
        rec = json.load(fh)
    try:
        fails = mod.replay(rec["case"])
    except Exception:
        traceback.print_exc()
        return 2
    rc = 0
    for f in fails:
        k = match_finding(f["sig"], findings)
        if k is not None:
            print("KNOWN-FINDING: property=%s %s" % (prop, k["desc"]))
            continue
        print("VIOLATION property=%s replay=%s" % (prop, path))
        print("  sig=%s" % json.dumps(f["sig"], sort_keys=True))
        print("  detail=%s" % f.get("detail", "")[:1000])
        rc = 1
    if not fails:
        print("%s replay %s: passes" % (prop, path))
    return rc
