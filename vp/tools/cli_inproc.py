"""Run a yamlpath console entry point in-process.

Calls the real main() with patched argv / stdin / stdout / stderr and catches
SystemExit.  yamlpath.common.parsers binds `from sys import stdin` at import
time, so that name is patched as well as sys.stdin (otherwise the call would
block on the real stdin).
"""
import importlib
import io
import sys

TOOLS = {
    "yaml-get": "yamlpath.commands.yaml_get",
    "yaml-set": "yamlpath.commands.yaml_set",
    "yaml-merge": "yamlpath.commands.yaml_merge",
    "yaml-diff": "yamlpath.commands.yaml_diff",
    "yaml-validate": "yamlpath.commands.yaml_validate",
    "yaml-paths": "yamlpath.commands.yaml_paths",
    "eyaml-rotate-keys": "yamlpath.commands.eyaml_rotate_keys",
}


class _Stdin(io.StringIO):
    def __init__(self, text, tty):
        super().__init__(text or "")
        self._tty = tty

    def isatty(self):
        return self._tty


class Outcome:
    def __init__(self, code, out, err, exc=None):
        self.code, self.out, self.err, self.exc = code, out, err, exc

    def __repr__(self):
        return "Outcome(code=%r, out=%r, err=%r, exc=%r)" % (
            self.code, self.out[:200], self.err[:200], self.exc)


def run(tool, argv, stdin_text=None, patches=None):
    """Returns Outcome.  stdin_text None = a TTY (no piped input).
    patches: {attribute name: object} applied to the command module for the
    duration of the call (fault injection)."""
    import yamlpath.common.parsers as parsers
    mod = importlib.import_module(TOOLS[tool])
    fake_in = _Stdin(stdin_text, stdin_text is None)
    out, err = io.StringIO(), io.StringIO()
    saved = (sys.argv, sys.stdin, sys.stdout, sys.stderr, parsers.stdin)
    saved_attrs = {}
    exc = None
    code = 0
    try:
        sys.argv = [tool] + [str(a) for a in argv]
        sys.stdin = fake_in
        parsers.stdin = fake_in
        sys.stdout, sys.stderr = out, err
        for name, obj in (patches or {}).items():
            saved_attrs[name] = getattr(mod, name, _MISSING)
            setattr(mod, name, obj)
        try:
            mod.main()
        except SystemExit as se:
            code = se.code if isinstance(se.code, int) else (
                0 if se.code is None else 1)
        except BaseException as e:      # uncaught: a traceback for the user
            exc = e
            code = None
    finally:
        for name, obj in saved_attrs.items():
            if obj is _MISSING:
                delattr(mod, name)
            else:
                setattr(mod, name, obj)
        (sys.argv, sys.stdin, sys.stdout, sys.stderr, parsers.stdin) = saved
    return Outcome(code, out.getvalue(), err.getvalue(), exc)


_MISSING = object()
