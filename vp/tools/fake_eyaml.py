#!/venv/bin/python
"""Stand-in for the hiera-eyaml executable (absent from this sandbox).

Speaks the command line yamlpath/eyaml/eyamlprocessor.py uses:

  eyaml encrypt --quiet --stdin --output=string|block
        --pkcs7-public-key=F --pkcs7-private-key=F      (plaintext on stdin)
  eyaml decrypt --quiet --stdin
        --pkcs7-public-key=F --pkcs7-private-key=F      (ciphertext on stdin)

Cipher: keystream = SHA-256(key material || counter); ciphertext = XOR of the
UTF-8 plaintext with the keystream, followed by a 4-byte MAC =
SHA-256(key material || plaintext)[:4]; base64, wrapped as ENC[PKCS7,...].
Key material = bytes of the public key file || bytes of the private key file.
Decrypting with the wrong keys fails the MAC and exits 1 (as the real tool
does).  `block` output is wrapped at 60 columns, each line indented by four spaces
and joined with CRLF - the form eyamlprocessor.encrypt_eyaml() post-processes
(it strips the spaces and turns CRLF into the folding space).  If FAKE_EYAML_LOG is set, one line per invocation is
appended to that file.
"""
import base64
import hashlib
import os
import sys


def keystream(key, n):
    out = b""
    ctr = 0
    while len(out) < n:
        out += hashlib.sha256(key + ctr.to_bytes(4, "big")).digest()
        ctr += 1
    return out[:n]


def key_material(opts):
    parts = b""
    for name in ("--pkcs7-public-key", "--pkcs7-private-key"):
        path = opts.get(name)
        if not path:
            sys.stderr.write("missing %s\n" % name)
            sys.exit(2)
        with open(path, "rb") as fh:
            parts += fh.read() + b"|"
    return hashlib.sha256(parts).digest()


def material_from_texts(public_text, private_text):
    """Key material for in-process use (same derivation as key_material)."""
    return hashlib.sha256(public_text.encode() + b"|" +
                          private_text.encode() + b"|").digest()


def encrypt_text(key, plaintext):
    data = plaintext.encode("utf-8")
    mac = hashlib.sha256(key + data).digest()[:4]
    body = bytes(a ^ b for a, b in zip(data, keystream(key, len(data))))
    return "ENC[PKCS7," + base64.b64encode(body + mac).decode() + "]"


def decrypt_text(key, ciphertext):
    """Plaintext, or None when the keys do not fit / the value is corrupt."""
    compact = "".join(str(ciphertext).split())
    if not (compact.startswith("ENC[PKCS7,") and compact.endswith("]")):
        return None
    try:
        blob = base64.b64decode(compact[len("ENC[PKCS7,"):-1], validate=True)
    except Exception:
        return None
    if len(blob) < 4:
        return None
    body, mac = blob[:-4], blob[-4:]
    plain = bytes(a ^ b for a, b in zip(body, keystream(key, len(body))))
    if hashlib.sha256(key + plain).digest()[:4] != mac:
        return None
    return plain.decode("utf-8", "replace")


def main():
    argv = sys.argv[1:]
    if not argv or argv[0] not in ("encrypt", "decrypt"):
        sys.stderr.write("usage: eyaml encrypt|decrypt ...\n")
        sys.exit(2)
    opts = {}
    for a in argv[1:]:
        if "=" in a:
            k, _, v = a.partition("=")
            opts[k] = v
        else:
            opts[a] = True
    key = key_material(opts)
    data = sys.stdin.buffer.read()
    log = os.environ.get("FAKE_EYAML_LOG")
    if argv[0] == "encrypt":
        mac = hashlib.sha256(key + data).digest()[:4]
        body = bytes(a ^ b for a, b in zip(data, keystream(key, len(data))))
        text = "ENC[PKCS7," + base64.b64encode(body + mac).decode() + "]"
        if opts.get("--output") == "block":
            lines = [text[i:i + 60] for i in range(0, len(text), 60)]
            text = "\r\n".join("    " + ln for ln in lines)
        if log:
            with open(log, "a") as fh:
                fh.write("encrypt %s\n" % hashlib.sha256(data).hexdigest())
        sys.stdout.buffer.write((text + "\n").encode("ascii"))
        return
    raw = data.decode("utf-8", "replace")
    compact = "".join(raw.split())
    if not (compact.startswith("ENC[PKCS7,") and compact.endswith("]")):
        sys.stderr.write("not an eyaml value\n")
        sys.exit(1)
    try:
        blob = base64.b64decode(compact[len("ENC[PKCS7,"):-1], validate=True)
    except Exception:
        sys.stderr.write("corrupt ciphertext\n")
        sys.exit(1)
    if len(blob) < 4:
        sys.stderr.write("corrupt ciphertext\n")
        sys.exit(1)
    body, mac = blob[:-4], blob[-4:]
    plain = bytes(a ^ b for a, b in zip(body, keystream(key, len(body))))
    if hashlib.sha256(key + plain).digest()[:4] != mac:
        sys.stderr.write("bad decrypt (wrong keys)\n")
        sys.exit(1)
    if log:
        with open(log, "a") as fh:
            fh.write("decrypt %s\n" % hashlib.sha256(plain).hexdigest())
    sys.stdout.buffer.write(plain)


if __name__ == "__main__":
    main()
